"""C01 - Gaussian-copula synthetic data keeps schema, marginals and dependence.

The output of sample() is a function of the multivariate-normal draw recorded at the RNG
seam.  Exact oracle: that draw has mean 0 and covariance = fitted correlation, and every
output column is the marginal-inverse transform of exactly the recorded draw.  Bands
(DKW per column against the fitted marginal, Hoeffding for Kendall's tau against
(2/pi) asin rho) at n >= 2000.  Recovery is gated only in the closed-form configuration."""

import copy
import math

import numpy as np
import pandas as pd
from scipy import stats

from checks import gmvlib
from copsim import refs, zoo
from copsim.core import Ctx, outcome, outcome_class, state_digest
from copsim.seams import RngRecorder

PROPERTY = 'C01'
LEVEL = 'exploration'
TIERS = {
    'quick': {'runs': 1500, 'wall': 150, 'batch': 6},
    'thorough': {'runs': 30000, 'wall': 840, 'batch': 6},
}
RULE = ('Each run = a simulator-generated training table (2-6 columns, Gaussian copula with '
        'random/structured correlation, mixed marginals, constant and duplicated columns, '
        'DataFrame or ndarray), a marginal configuration form (default, class, name, instance, '
        'per-column dict), a seed kind, and 1-3 sample(n) calls (n in 1..2000, 20000 in '
        'thorough) interleaved with foreign activity on the global generator; the '
        'multivariate_normal draw is recorded at the RNG seam. Non-trivial = a sample call '
        'whose draw was recorded; distinct = distinct (d, marginal types, config form, seed '
        'kind, n class, protocol) shapes.')
STATE_MEASURE = 'distinct (column count, fitted marginal-type tuple, config form, seed kind, n class)'
STUBS = ['recording wrapper around numpy.random.multivariate_normal (real MT19937 underneath)',
         '"application" client drawing from the global generator']
ASSUMPTIONS = [
    'percent_point/cdf of the fitted marginals (C03) and the correlation estimate (C02) are '
    'assumed: a bug there moves model and sample together',
    'exact oracle only inside the recognised protocol class (one multivariate_normal draw of '
    'size n whose columns map monotonically to the output columns, recognised on a call with '
    'n >= 8); otherwise bands only',
    'bands: total false-alarm probability <= 1e-9 per run',
]
SUBJECT = 'copulas.multivariate.gaussian.GaussianMultivariate.sample'
NAMES = [None, ['a b', 'x', 'Y y', 'col-3', 'z', 'w'], ['t%d' % i for i in range(6)]]


def generate(rng, tier, idx):
    thorough = tier == 'thorough'
    closed = rng.random() < 0.15
    if closed:
        d = rng.randint(2, 4)
        fam = [rng.choice(['normal', 'uniform']) for _ in range(d)]
        table = {'kind': 'table', 'n': rng.choice([1000, 1500]), 'seed': rng.randrange(2**31),
                 'margs': fam, 'pattern': 'random',
                 # location/scale incl. tiny relative and tiny absolute spreads
                 'affine': [rng.choice([[0.0, 1.0], [0.0, 1.0], [1.7e9, 3e3], [2e-9, 5e-10],
                                        [-40.0, 0.01], [5.0, 1000.0]]) for _ in range(d)]}
        zoo.with_index(table)
        if d >= 3 and (idx % 3) == 0:
            # a constant column next to dependent ones: its row and column of the correlation
            # matrix are filled in by the library, the others must still be recovered
            fam[(idx // 3) % d] = 'constant'
        mapping = {'c%d' % j: {'__cls__': gmvlib.FAM['uniform' if f == 'uniform' else 'gaussian']}
                   for j, f in enumerate(fam)}
        config = {'form': 'dict', 'ctor': {'distribution': {'__map__': mapping}}}
    else:
        table = zoo.rand_table_spec(
            rng, 2, 6 if thorough or rng.random() < 0.3 else 4, 200, 1000 if thorough else 400,
            constant_p=0.12,
            patterns=('random', 'random', 'chain', 'star', 'equi', 'indep', 'neg', 'weak', 'dup'))
        names = rng.choice(NAMES)
        if names:
            table['names'] = names[:len(table['margs'])]
        d = len(table['margs'])
        allow_default = d <= 3 and table['n'] <= (600 if thorough else 300)
        colnames = table.get('names') or ['c%d' % i for i in range(d)]
        config = gmvlib.rand_config(rng, colnames, allow_default=allow_default)
        if 'gaussian_kde' in str(config).lower() or 'GaussianKDE' in str(config):
            if rng.random() < 0.3:
                table['n'] = rng.choice([600, 700])     # points x kernels beyond 1e6 at n=2000
    if not closed and rng.random() < 0.08:
        j = rng.randrange(len(table['margs']))
        table['margs'][j] = 'constant_bigint'
    if not closed and rng.random() < 0.08 and 'affine' not in table:
        # a column whose values and spread are tiny (1e-7): the numerical inverse of a kernel
        # estimate has to resolve it
        table['affine'] = [[0.0, 1.0]] * len(table['margs'])
        j = rng.randrange(len(table['margs']))
        table['affine'] = [list(a) for a in table['affine']]
        table['affine'][j] = [2e-7, 1e-7]
        colname = (table.get('names') or ['c%d' % i for i in range(len(table['margs']))])[j]
        config = {'form': 'dict', 'ctor': {'distribution': {'__map__': {
            str(nm): ({'__cls__': gmvlib.FAM['kde']} if nm == colname
                      else {'__cls__': gmvlib.FAM['gaussian']})
            for nm in (table.get('names') or ['c%d' % i for i in range(len(table['margs']))])}}}}
    run = {'table': table, 'config': config, 'seed': zoo.rand_seedspec(rng),
           'fit_state': rng.randrange(2**31), 'g0': rng.randrange(2**31), 'closed': closed}
    if not closed and rng.random() < 0.2:
        run['as_array'] = True
        run['table'].pop('names', None)
        if config['form'] == 'dict':
            m = config['ctor']['distribution']['__map__']
            config['ctor']['distribution']['__map__'] = {
                str(j): m.get('c%d' % j, {'__cls__': gmvlib.FAM['gaussian']})
                for j in range(len(table['margs']))}
    ops = []
    k = rng.randint(1, 3)
    ns = [rng.choice([1, 2, 8, 50]) for _ in range(k)]
    if not any(n >= 8 for n in ns):
        ns[rng.randrange(k)] = rng.choice([8, 50])
    if rng.random() < 0.25:
        ns.append((20000 if thorough and rng.random() < 0.3 else 2000)
                  + [0, 1, 337, 999, 500][idx % 5])        # not only round batch sizes
    for n in ns:
        if rng.random() < 0.5:
            ops.append({'op': rng.choice(['app_draw', 'app_reseed']), 'k': rng.randint(1, 50),
                        's': rng.randrange(2**31)})
        ops.append({'op': 'sample', 'n': n})
    if not closed and rng.random() < 0.3:
        # history: the same object is fitted again on another table with the same columns
        t2 = dict(table, seed=rng.randrange(2**31),
                  pattern=rng.choice(['random', 'neg', 'chain', 'indep']))
        ops.append({'op': 'refit', 'table': t2, 'state': rng.randrange(2**31)})
        ops.append({'op': 'sample', 'n': rng.choice([8, 50])})
        if rng.random() < 0.3:
            ops.append({'op': 'sample', 'n': 2000})
    run['ops'] = ops
    return run


def simplify(run):
    for i, op in enumerate(run['ops']):
        if op['op'] == 'sample':
            for small in (8, 50):
                if small < op['n']:
                    cand = copy.deepcopy(run)
                    cand['ops'][i]['n'] = small
                    yield cand
    if run['table']['n'] > 200:
        cand = copy.deepcopy(run)
        cand['table']['n'] = 200
        yield cand
    if len(run['table']['margs']) > 2 and run['config']['form'] != 'dict' \
            and not run['table'].get('names'):
        cand = copy.deepcopy(run)
        cand['table']['margs'] = cand['table']['margs'][:-1]
        yield cand


def _uni_type(uni):
    inst = getattr(uni, '_instance', None)
    return type(inst if inst is not None else uni).__name__


def _check_sample(ctx, run, model, train_df, n, recognised):
    d = len(model.columns)
    cond = {'d': d, 'n': n, 'config': run['config']['form'],
            'seeded': run.get('seed') is not None}
    with RngRecorder() as rec:
        out = outcome(model.sample, n)
    ctx.stats['sample_calls'] += 1
    ctx.stats['draw_calls_recorded'] += len(rec.calls)
    if out[0] != 'ok':
        ctx.violate('a_schema', SUBJECT, 'sample(%d) raised %s: %s'
                    % (n, outcome_class(out), str(out[1])[:150]), clause='raised',
                    exc=outcome_class(out), **cond)
        return 'raised'
    S = out[1]
    if not isinstance(S, pd.DataFrame) or len(S) != n or list(S.columns) != list(train_df.columns):
        ctx.violate('a_schema', SUBJECT, 'want %d rows x columns %r, got %r rows x %r'
                    % (n, list(train_df.columns), len(S), list(getattr(S, 'columns', []))),
                    clause='shape', **cond)
        return 'badshape'
    if S.isna().to_numpy().any():
        ctx.violate('a_schema', SUBJECT, 'missing values in columns %r'
                    % [c for c in S.columns if S[c].isna().any()], clause='nan', **cond)
        return 'nan'
    # constant training columns are reproduced exactly, whatever the protocol
    for j, name in enumerate(train_df.columns):
        col = train_df[name].to_numpy()
        if len(np.unique(col)) == 1:
            ctx.probes['constant_column_sampled'] += 1
            want = col[0].item() if hasattr(col[0], 'item') else col[0]
            got = [v.item() if hasattr(v, 'item') else v for v in S[name].to_numpy()[:50]]
            if not all(g == want for g in got):          # Python compares int and float exactly
                ctx.violate('a_constant_column_reproduced', SUBJECT,
                            'column %r: training constant %r, sampled %r'
                            % (name, col[0], S[name].to_numpy()[:3].tolist()), **cond)
    # (b) draw refinement
    proto = 'unrecognised'
    calls = rec.calls
    if len(calls) == 1 and calls[0]['name'] == 'multivariate_normal' \
            and isinstance(calls[0]['result'], np.ndarray) and calls[0]['result'].shape == (n, d):
        Z = calls[0]['result']
        args = calls[0]['args']
        mean = np.asarray(args[0], dtype=float) if len(args) > 0 else None
        cov = np.asarray(args[1], dtype=float) if len(args) > 1 else None
        structural = mean is not None and cov is not None and cov.shape == (d, d)
        if structural and n >= 8:
            mono = all(
                gmvlib.is_constant_uni(u) or gmvlib.monotone_in(S[c].to_numpy(), Z[:, j])
                for j, (c, u) in enumerate(zip(model.columns, model.univariates)))
            if mono:
                recognised[0] = True
                proto = 'one_mvn_draw_monotone'
        elif structural and recognised[0]:
            proto = 'one_mvn_draw_monotone'
        if proto != 'unrecognised':
            R = model.correlation.to_numpy()
            if not np.all(mean == 0):
                ctx.violate('b_draw_mean_zero', SUBJECT, 'mean passed to the draw: %r'
                            % mean.tolist(), **cond)
            if not np.allclose(cov, R, rtol=0, atol=1e-9) or not np.allclose(cov, cov.T, atol=1e-12):
                ctx.violate('b_draw_covariance_is_fitted_correlation', SUBJECT,
                            'max |cov - correlation| = %.3g' % float(np.max(np.abs(cov - R))),
                            **cond)
            # Phi(z_j) is uniform - and the column follows its fitted marginal - only if the
            # draw has unit variance in that coordinate (up to the 1.2e-7 ridge)
            diag = np.diag(cov)
            noncon = np.array([not gmvlib.is_constant_uni(u) for u in model.univariates])
            if noncon.any() and np.max(np.abs(diag[noncon] - 1.0)) > 1e-5:
                j = int(np.argmax(np.where(noncon, np.abs(diag - 1.0), 0)))
                ctx.violate('b_draw_has_unit_variance', SUBJECT,
                            'column %r: the normal scores are drawn with variance %.6f, so '
                            'Phi(z) is not uniform and the column cannot follow its marginal'
                            % (model.columns[j], float(diag[j])), **cond)
            if rec.psd_warnings:
                ctx.violate('b_draw_covariance_psd', SUBJECT,
                            'numpy reported a covariance that is not positive-semidefinite',
                            pattern=run['table'].get('pattern'), **cond)
            for name, i, got, ref in gmvlib.refine_columns(model, S, Z, list(model.columns)):
                ctx.violate('b_column_is_marginal_inverse_of_draw', SUBJECT,
                            'column %r row %d: sampled %r, percent_point(Phi(z)) = %r'
                            % (name, i, got, ref), **cond)
                break
            ctx.stats['rows_refined_exactly'] += n
    if proto == 'unrecognised':
        ctx.probes['protocol_unrecognised'] += 1
    # (c) bands
    if n >= 2000:
        ctx.stats['band_checks'] += 1
        tests = d + d * (d - 1) // 2
        alpha = 1e-9 / (4.0 * tests)
        eps = refs.dkw_eps(n, alpha)
        et = refs.hoeffding_tau_eps(n, alpha)
        cont = []
        for j, (name, uni) in enumerate(zip(model.columns, model.univariates)):
            if gmvlib.is_constant_uni(uni):
                continue
            if not gmvlib.marginal_consistent(uni):
                ctx.probes['band_skipped_marginal_not_self_consistent'] += 1
                continue
            cont.append(j)
            ks = refs.ks_distance(S[name].to_numpy(), lambda x: uni.cdf(np.asarray(x)))
            if ks > eps:
                ctx.violate('c_marginal_dkw', SUBJECT,
                            'column %r (%s): KS distance to the fitted marginal %.4f > %.4f (n=%d)'
                            % (name, _uni_type(uni), ks, eps, n), **cond)
        R = model.correlation.to_numpy()
        for a in cont:
            for b in cont:
                if a < b:
                    rho = float(np.clip(R[a, b], -1, 1))
                    want = 2.0 / math.pi * math.asin(rho)
                    got = refs.kendall_tau(S.iloc[:, a].to_numpy(), S.iloc[:, b].to_numpy())
                    if abs(got - want) > et:
                        ctx.violate('c_pair_tau_hoeffding', SUBJECT,
                                    'columns (%r,%r): sample tau %.4f, implied %.4f, band %.4f'
                                    % (model.columns[a], model.columns[b], got, want, et), **cond)
    return proto


def _check_recovery(ctx, run, model, train_df, R_true):
    """Closed-form configuration only (Gaussian/Uniform marginals fitted to their own family)."""
    n = len(train_df)
    subject = 'copulas.multivariate.gaussian.GaussianMultivariate.fit'
    R = model.correlation.to_numpy()
    d = R.shape[0]
    if n < 1000:
        return
    ctx.stats['recovery_checks'] += 1
    const = [str(m).startswith('constant') for m in run['table']['margs']]
    for a in range(d):
        for b in range(a + 1, d):
            if const[a] or const[b]:
                continue
            if abs(R_true[a, b]) > 0.9:
                # on the atanh scale the plug-in transform's end-point effects blow up near
                # |rho| = 1; "within sampling error" is gated for |rho| <= 0.9 only
                ctx.probes['recovery_pair_skipped_abs_rho_above_0.9'] += 1
                continue
            lim = 8.0 / math.sqrt(n - 3) + 0.02
            r_hat = float(np.clip(R[a, b], -0.999999, 0.999999))
            r_true = float(np.clip(R_true[a, b], -0.999999, 0.999999))
            if abs(math.atanh(r_hat) - math.atanh(r_true)) > lim:
                ctx.violate('d_correlation_recovered', subject,
                            'pair (%d,%d): fitted rho %.4f, generating rho %.4f, n=%d'
                            % (a, b, r_hat, r_true, n), d=d, n=n)
    eps = 2.0 * refs.dkw_eps(n, 1e-11)
    grid = np.linspace(-4, 4, 401)
    affine = run['table'].get('affine') or [[0.0, 1.0]] * len(model.univariates)
    for j, (marg, uni) in enumerate(zip(run['table']['margs'], model.univariates)):
        if str(marg).startswith('constant'):
            continue
        if marg == 'normal':
            xs, G = grid, stats.norm.cdf(grid)
        else:
            xs = np.linspace(-1, 1, 401)
            G = (xs + 1) / 2
        xs = xs * affine[j][1] + affine[j][0]
        dev = float(np.max(np.abs(uni.cdf(xs) - G)))
        if dev > eps:
            ctx.violate('d_marginal_recovered', subject,
                        'column %d (%s): sup |fitted CDF - generating CDF| = %.4f > %.4f'
                        % (j, marg, dev, eps), d=d, n=n)


def _check_marginals_fitted_to_own_column(ctx, run, model, train_df):
    """'the marginal fitted for that column': where the configuration names a plain family
    (class or qualified name, globally or per column) the column's marginal must equal a fresh
    instance of that family fitted on that column alone - whatever else was fitted before."""
    from copsim.core import same
    from copsim.seams import sterile
    cfg = run['config']
    dist = (cfg.get('ctor') or {}).get('distribution')
    for j, (name, uni) in enumerate(zip(model.columns, model.univariates)):
        spec = dist
        if isinstance(dist, dict) and '__map__' in dist:
            spec = dist['__map__'].get(str(name))
        fam = None
        if isinstance(spec, str):
            fam = spec
        elif isinstance(spec, dict) and '__cls__' in spec:
            fam = spec['__cls__']
        if fam is None:
            continue
        cls = zoo.load_class(fam)
        if type(uni) is not cls:
            continue                                  # fell back to a Gaussian: C05's matter
        with sterile(run.get('fit_state', 1)):
            ref = cls()
            o = outcome(ref.fit, train_df[name])
        if o[0] != 'ok':
            continue
        a, b = outcome(uni.to_dict), outcome(ref.to_dict)
        ctx.stats['column_model_comparisons'] += 1
        if a[0] == 'ok' and b[0] == 'ok' and not same(a[1], b[1]):
            ctx.violate('a_marginal_is_fitted_to_its_own_column', SUBJECT.replace('.sample', '.fit'),
                        'column %r: the model holds a %s with %s, a fresh one fitted on this '
                        'column has %s' % (name, cls.__name__,
                                           {k: v for k, v in a[1].items() if k not in ('type', 'dataset')},
                                           {k: v for k, v in b[1].items() if k not in ('type', 'dataset')}),
                        d=len(model.columns), config=cfg['form'], family=cls.__name__)


def execute(run):
    ctx = Ctx(run)
    np.random.seed(run['g0'] % (2**32))
    model, train_df, R_true, fit_out = gmvlib.build_fitted(run)
    if fit_out[0] != 'ok':
        # every generated table is a finite numeric table of the quantified kind: a fit that
        # raises leaves nothing to sample from
        ctx.probes['fit_raised:' + outcome_class(fit_out)] += 1
        ctx.nontrivial = True
        ctx.violate('fit_succeeds_on_numeric_table',
                    'copulas.multivariate.gaussian.GaussianMultivariate.fit',
                    'fit raised %s: %s' % (outcome_class(fit_out), str(fit_out[1])[:160]),
                    exc=outcome_class(fit_out), config=run['config']['form'],
                    margs=sorted(set(run['table']['margs'])))
        ctx.event('fit', outcome_class(fit_out))
        return ctx.result()
    types = tuple(_uni_type(u) + ('*' if gmvlib.is_constant_uni(u) else '')
                  for u in model.univariates)
    ctx.event('fit', 'ok', types, model.correlation.to_numpy())
    ctx.probes['config_form:' + run['config']['form']] += 1
    if run.get('as_array'):
        ctx.probes['trained_on_ndarray'] += 1
    R = model.correlation.to_numpy()
    if np.linalg.cond(R) > 1e12:
        ctx.probes['near_singular_correlation'] += 1
    if run.get('closed'):
        _check_recovery(ctx, run, model, train_df, R_true)
    _check_marginals_fitted_to_own_column(ctx, run, model, train_df)
    # a kernel-estimate marginal is sampled through the library's own numerical inverse of its
    # cdf: the column can follow the fitted marginal only if that inverse inverts
    for name, uni in zip(model.columns, model.univariates):
        inst = getattr(uni, '_instance', None) or uni
        if type(inst).__name__ == 'GaussianKDE' and not gmvlib.is_constant_uni(uni):
            ctx.stats['kde_inverse_checks'] += 1
            if not gmvlib.marginal_consistent(inst):
                ctx.violate('c_kde_marginal_inverse_inverts_its_cdf', SUBJECT,
                            'column %r: cdf(percent_point(p)) != p for the fitted kernel estimate '
                            '(|p - cdf(ppf(p))| > 1e-6 on a probability grid)' % (name,),
                            d=len(model.columns), config=run['config']['form'])
            # ... and only if that cdf is the law of the fitted estimate: the weighted mixture
            # of normal kernels over the stored data (from the parameters, not from cdf())
            xs = np.quantile(train_df[name].to_numpy(dtype=float), np.linspace(0.01, 0.99, 23))
            ref_o = outcome(gmvlib.kde_reference_cdf, inst, xs)
            got_o = outcome(lambda: np.asarray(inst.cdf(xs), dtype=float))
            if ref_o[0] == 'ok' and got_o[0] == 'ok':
                ctx.stats['kde_law_checks'] += 1
                dev = float(np.max(np.abs(ref_o[1] - got_o[1])))
                if not dev <= 1e-9:
                    ctx.violate('c_kde_marginal_cdf_is_the_kernel_mixture', SUBJECT,
                                'column %r: cdf() of the fitted kernel estimate differs from the '
                                'weighted mixture of its kernels by %.3g (weights %s)'
                                % (name, dev, 'given' if getattr(inst, 'weights', None) is not None
                                   else 'default'),
                                d=len(model.columns), config=run['config']['form'])
            elif got_o[0] == 'ok':
                ctx.probes['kde_reference_unavailable:' + outcome_class(ref_o)] += 1
    recognised = [False]
    # protocol recognition probe, out of band: a copy of the model samples 16 rows under an
    # unrelated global state; calls with n < 8 are then checked exactly too
    import copy as _copy
    from copsim.seams import sterile
    with sterile(run['g0'] + 17):
        probe_ctx = Ctx(run)
        _check_sample(probe_ctx, run, _copy.deepcopy(model), train_df, 16, recognised)
    for i, op in enumerate(run['ops']):
        ctx.op_index = i
        ctx.stats['ops'] += 1
        if op['op'] == 'app_draw':
            np.random.random(op['k'])
            ctx.faults['F5_foreign_draws'] += 1
        elif op['op'] == 'app_reseed':
            np.random.seed(op['s'] % (2**32))
            ctx.faults['F5_foreign_reseed'] += 1
        elif op['op'] == 'refit':
            df2, _r2 = zoo.gen_table(op['table'])
            if run.get('as_array'):
                df2 = pd.DataFrame(df2.to_numpy())
            from copsim.seams import sterile as _sterile
            with _sterile(op['state']):
                o = outcome(model.fit, df2.to_numpy() if run.get('as_array') else df2)
            ctx.probes['refit_same_object'] += 1
            ctx.event('refit', outcome_class(o))
            if o[0] != 'ok':
                break
            train_df = df2
            types = tuple(_uni_type(u) + ('*' if gmvlib.is_constant_uni(u) else '')
                          for u in model.univariates)
        elif op['op'] == 'sample':
            n = op['n']
            proto = _check_sample(ctx, run, model, train_df, n, recognised)
            ctx.nontrivial = True
            if n == 1:
                ctx.probes['n_equals_1'] += 1
            ncls = '1' if n == 1 else ('small' if n < 2000 else 'band')
            st = '|'.join([str(len(types)), ','.join(types), run['config']['form'],
                           (run.get('seed') or {}).get('kind', 'none'), ncls, proto])
            ctx.states.add(st)
            ctx.shape.append(st)
            ctx.event('sample', n, proto, state_digest())
    return ctx.result()
