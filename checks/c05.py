"""C05 - Marginal model choice: best-KS candidate, filters, per-column config, fallback.

"Candidates that can be fitted" and "if that distribution cannot be fitted" are statements
about failures of a pluggable step; the failure pattern is the fault schedule.  The
simulator supplies duck-typed marginals (copsim.seams.FailingMarginal) that delegate to a
real family and fail on schedule, through the public ``candidates=`` / ``distribution=``
arguments."""

import copy
import itertools

import numpy as np
import pandas as pd
from scipy.stats import kstest

from checks import gmvlib
from copsim import zoo
from copsim.core import Ctx, derive_seed, outcome, outcome_class
from copsim.seams import FailingMarginal, RngRecorder, sterile

PROPERTY = 'C05'
LEVEL = 'exploration'
TIERS = {
    'quick': {'runs': 2400, 'wall': 150, 'batch': 12},
    'thorough': {'runs': 30000, 'wall': 840, 'batch': 6},
}
RULE = ('Each run is one of: (A) a Univariate with an explicit candidate list (2-5 entries as '
        'class / qualified name / instance / failing wrapper, order permuted), with or without '
        'selection_sample_size, where every wrapper fails on its 1st fit, its 2nd fit, always, '
        'returns a NaN CDF, or not at all - the fixed runs enumerate all 2^k survivor patterns '
        'for k <= 4 wrappers; (B) a Univariate built from each (parametric, bounded) filter pair; '
        '(C) a GaussianMultivariate over 2-4 columns in every configuration form with failing '
        'marginals scheduled on some columns. Non-trivial = a run in which at least one '
        'injected failure fired or a filter/selection was decided among >= 2 survivors; distinct '
        '= distinct (kind, candidate multiset, survivor pattern, winner/column types) shapes.')
STATE_MEASURE = 'distinct (candidate multiset, survivor pattern, winner)'
STUBS = ['failing plug-in marginals (duck-typed, delegate to a real family, fail on schedule)']
ASSUMPTIONS = [
    'scipy.stats.kstest trusted; KS statistics are recomputed by the harness with fresh, '
    'fault-free instances on the same data / the same recorded subsample',
    'ties in KS are accepted either way (+1e-12)',
    'a Univariate whose winner fails at its final fit, or whose candidates all fail, is not '
    'gated (the sentence speaks of candidates that can be fitted)',
]
FAMS = list(gmvlib.FAM)
TAGS = {
    'beta': ('PARAMETRIC', 'BOUNDED'), 'gamma': ('PARAMETRIC', 'SEMI_BOUNDED'),
    'gaussian': ('PARAMETRIC', 'UNBOUNDED'), 'kde': ('NON_PARAMETRIC', 'UNBOUNDED'),
    'loglaplace': ('PARAMETRIC', 'SEMI_BOUNDED'), 'student': ('PARAMETRIC', 'UNBOUNDED'),
    'truncated': ('PARAMETRIC', 'BOUNDED'), 'uniform': ('PARAMETRIC', 'BOUNDED'),
}
SUBJ_UNI = 'copulas.univariate.base.Univariate.fit'
SUBJ_GMV = 'copulas.multivariate.gaussian.GaussianMultivariate.fit'
MODES = ['never', 'first', 'second', 'always', 'nancdf']


# ----------------------------------------------------------------------------
# generation
# ----------------------------------------------------------------------------

def _cand(rng, fam, tag, wrap_p=0.5, mode=None):
    if rng.random() < wrap_p or mode:
        return {'fam': fam, 'form': 'wrap', 'mode': mode or rng.choice(MODES), 'tag': tag,
                'exc': rng.choice(['RuntimeError', 'RuntimeError', 'NotImplementedError',
                                   'ValueError', 'KeyError', 'TypeError', 'ZeroDivisionError',
                                   'FloatingPointError', 'AssertionError', 'OverflowError'])}
    c = {'fam': fam, 'form': rng.choice(['class', 'name', 'instance']), 'tag': tag}
    if c['form'] == 'instance' and fam == 'truncated':
        # both bounds positionally, or only one of the two configured (the other one is then
        # taken from the data)
        c['inst'] = rng.choice(['both', 'both', 'min_only', 'max_only'])
    return c


def _gen_select(rng):
    k = rng.randint(2, 5)
    fams = rng.sample(FAMS, k)
    cands = [_cand(rng, f, 'P%d' % i) for i, f in enumerate(fams)]
    if rng.random() < 0.15:
        # the same family twice, configured differently (two kernel bandwidths, two truncation
        # ranges): candidates are entries of a list, not names of classes
        fam = rng.choice(['kde', 'truncated'])
        opts = ([{'bw_method': 0.05}, {'bw_method': 3.0}] if fam == 'kde'
                else [{'minimum': -1e6, 'maximum': 1e6}, {'minimum': -1e3, 'maximum': 40.0}])
        if rng.random() < 0.5:
            opts = opts[::-1]
        cands = [{'fam': fam, 'form': 'configured', 'tag': 'Q%d' % i, 'opts': o}
                 for i, o in enumerate(opts)] + cands[:rng.randint(0, 2)]
        cands = [c for i, c in enumerate(cands)
                 if c['form'] == 'configured' or c['fam'] != fam]
    run = {'kind': 'select', 'cands': cands,
           'data': zoo.rand_uni_dataspec(rng, 50, 400, allow_constant=False),
           'state': rng.randrange(2**31), 'ops': []}
    if rng.random() < 0.12:
        # a large sample that none of the parametric candidates describes well: KS p-values
        # underflow, KS distances stay well separated
        run['data'].update({'gen': rng.choice(['bimodal', 'binary', 'lognormal']),
                            'n': rng.choice([3000, 5000])})
        run['cands'] = [c for c in cands if c['fam'] not in ('kde', 'student', 'beta')] or cands
    if rng.random() < 0.3:
        run['selection_sample_size'] = rng.choice([20, 45])
    return run


def _gen_filter(rng):
    return {'kind': 'filter', 'parametric': rng.choice([None, 'PARAMETRIC', 'NON_PARAMETRIC']),
            'bounded': rng.choice([None, 'BOUNDED', 'SEMI_BOUNDED', 'UNBOUNDED']),
            'data': zoo.rand_uni_dataspec(rng, 50, 150, allow_constant=False),
            'state': rng.randrange(2**31), 'ops': []}


def _gen_gmv(rng):
    d = rng.randint(2, 4)
    table = {'kind': 'table', 'n': rng.randint(50, 200), 'seed': rng.randrange(2**31),
             'margs': [rng.choice(['normal', 'uniform', 'gamma', 'beta', 'bimodal'])
                       for _ in range(d)], 'pattern': rng.choice(['random', 'chain', 'weak'])}
    form = rng.choice(['proto', 'dict', 'dict', 'class', 'name', 'uni_proto'])
    cfg = {'form': form}
    fast = ['gaussian', 'uniform', 'kde', 'truncated', 'gamma', 'beta']
    if form == 'proto':
        cfg['cand'] = _cand(rng, rng.choice(fast), 'D', wrap_p=1.0,
                            mode=rng.choice(['first', 'second', 'always', 'never']))
    elif form == 'dict':
        cols = {}
        for j in range(d):
            if rng.random() < 0.75:
                cols['c%d' % j] = _cand(rng, rng.choice(fast), 'C%d' % j, wrap_p=0.6,
                                        mode=None)
                if cols['c%d' % j]['form'] == 'wrap' and cols['c%d' % j]['mode'] == 'nancdf':
                    cols['c%d' % j]['mode'] = 'always'
        if d <= 3 and table['n'] <= 120 and derive_seed('emptycfg', table['seed']) % 6 == 0:
            cols = {}                   # an empty mapping: every column gets the default
        elif len(cols) < d - 1:
            for j in range(d):
                cols.setdefault('c%d' % j, _cand(rng, 'gaussian', 'C%d' % j, wrap_p=0.0))
                if len(cols) >= d - 1:
                    break
        cfg['cols'] = cols
        cfg['mapkind'] = zoo.mapkind_for(sorted(cols), d, table['seed'])
    elif form in ('class', 'name'):
        cfg['cand'] = {'fam': rng.choice(fast), 'form': form, 'tag': 'D'}
    else:
        # a selecting prototype whose candidates include failing wrappers
        cfg['cands'] = [_cand(rng, f, 'U%d' % i, wrap_p=0.5) for i, f in
                        enumerate(rng.sample(['gaussian', 'uniform', 'kde', 'gamma'], 3))]
        if rng.random() < 0.5:
            cfg['selection_sample_size'] = rng.choice([15, 30])
            cfg['cands'] = [dict(c, form='class') if c['form'] == 'wrap' else c
                            for c in cfg['cands']]
            cfg['cands'] = [c for c in cfg['cands'] if c['fam'] != 'gaussian'] or cfg['cands']
    run = {'kind': 'gmv', 'table': table, 'config': cfg, 'state': rng.randrange(2**31),
           'ops': []}
    # the training frame as a caller really has it: rows filtered, index shifted or labelled
    run['index'] = rng.choice(['range', 'range', 'filtered', 'shifted', 'labels'])
    return run


def generate(rng, tier, idx):
    r = rng.random()
    if r < 0.45:
        return _gen_select(rng)
    if r < 0.55:
        return _gen_filter(rng)
    return _gen_gmv(rng)


def fixed_runs(tier):
    """All 2^k survivor patterns of k <= 4 failing wrappers (fail during selection or not),
    on two data sets; all 12 filter combinations."""
    runs = []
    fams = ['gaussian', 'uniform', 'kde', 'gamma']
    for data_seed, gen in ((11, 'gamma'), (12, 'bimodal')):
        for k in (1, 2, 3, 4) if tier == 'thorough' else (2, 4):
            for pattern in itertools.product(['never', 'first'], repeat=k):
                cands = [{'fam': fams[i], 'form': 'wrap', 'mode': pattern[i], 'tag': 'P%d' % i}
                         for i in range(k)]
                if k < 4:
                    cands.append({'fam': 'student', 'form': 'class', 'tag': 'R'})
                runs.append({'kind': 'select', 'cands': cands,
                             'data': {'kind': 'uni', 'gen': gen, 'n': 120, 'seed': data_seed,
                                      'loc': 1.0, 'scale': 2.0},
                             'state': 5, 'ops': [], 'enumerated': True})
    for par in (None, 'PARAMETRIC', 'NON_PARAMETRIC'):
        for bnd in (None, 'BOUNDED', 'SEMI_BOUNDED', 'UNBOUNDED'):
            runs.append({'kind': 'filter', 'parametric': par, 'bounded': bnd,
                         'data': {'kind': 'uni', 'gen': 'beta', 'n': 80, 'seed': 3, 'loc': 0.5,
                                  'scale': 3.0}, 'state': 6, 'ops': []})
    return runs


def simplify(run):
    if run['kind'] == 'select' and len(run['cands']) > 1:
        for i in range(len(run['cands'])):
            cand = copy.deepcopy(run)
            del cand['cands'][i]
            yield cand
    if run['kind'] == 'gmv' and len(run['table']['margs']) > 2:
        cand = copy.deepcopy(run)
        cand['table']['margs'] = cand['table']['margs'][:-1]
        yield cand
    if run.get('data', {}).get('n', 0) > 60:
        cand = copy.deepcopy(run)
        cand['data']['n'] = 60
        yield cand


# ----------------------------------------------------------------------------
# execution
# ----------------------------------------------------------------------------

def _make_cand(c):
    """Build the candidate object; returns (object, shared-counter or None)."""
    name = gmvlib.FAM[c['fam']]
    if c['form'] == 'class':
        return zoo.load_class(name), None
    if c['form'] == 'name':
        return name, None
    if c['form'] == 'configured':
        inst = zoo.load_class(name)(**c['opts'])
        inst._copsim_tag = c['tag']
        return inst, None
    if c['form'] == 'instance':
        if c['fam'] == 'truncated':
            if c.get('inst') == 'min_only':
                return zoo.load_class(name)(minimum=-1e6), None
            if c.get('inst') == 'max_only':
                return zoo.load_class(name)(maximum=1e6), None
            # a prototype built with positional constructor arguments
            return zoo.load_class(name)(-1e6, 1e6), None
        if c['fam'] == 'kde':
            return zoo.load_class(name)(None, None, 'silverman'), None
        return zoo.load_class(name)(), None
    proto = FailingMarginal(base=name, mode=c['mode'], tag=c['tag'],
                            exc=c.get('exc', 'RuntimeError'))
    return proto, proto._shared


def _ident(instance, cands=None):
    if isinstance(instance, FailingMarginal):
        return instance.tag
    if cands:
        # a configured duplicate is recognised by its options (get_instance() clones them)
        for c in cands:
            if c['form'] == 'configured' and type(instance).__name__ == zoo.short(gmvlib.FAM[c['fam']]):
                opts = c['opts']
                if all(getattr(instance, {'minimum': 'min', 'maximum': 'max'}.get(k, k), None) == v
                       for k, v in opts.items()):
                    return c['tag']
    return type(instance).__name__


def _cand_ident(c):
    if c['form'] in ('wrap', 'configured'):
        return c['tag']
    return zoo.short(gmvlib.FAM[c['fam']])


def _plain_instance(c):
    """A fresh, fault-free instance configured like candidate ``c``."""
    if isinstance(c, str):
        return zoo.load_class(gmvlib.FAM[c])()
    if c['form'] in ('instance', 'configured'):
        return _make_cand(dict(c))[0]
    return zoo.load_class(gmvlib.FAM[c['fam']])()


def _ref_ks(c, sample):
    """Fault-free KS statistic of the candidate's family (configured like the candidate) on
    the selection sample (None if it cannot be fitted or the statistic is not a number)."""
    inst = _plain_instance(c)
    with sterile(77):
        o = outcome(inst.fit, sample)
        if o[0] != 'ok':
            return None
        k = outcome(lambda: kstest(sample, inst.cdf)[0])
    if k[0] != 'ok' or not np.isfinite(k[1]):
        return None
    return float(k[1])


def _run_select(ctx, run):
    from copulas.univariate import Univariate
    X = zoo.gen_data(run['data'])
    objs = [_make_cand(c) for c in run['cands']]
    kwargs = {'candidates': [o for o, _ in objs]}
    if run.get('selection_sample_size'):
        kwargs['selection_sample_size'] = run['selection_sample_size']
    h = derive_seed('filters_next_to_list', run['data']['seed'])
    if h % 4 == 0:
        # filter arguments given NEXT TO an explicit list: documented as ignored
        from copulas.univariate.base import BoundedType, ParametricType
        kwargs['parametric'] = [ParametricType.PARAMETRIC, ParametricType.NON_PARAMETRIC][(h // 4) % 2]
        if (h // 8) % 2:
            kwargs['bounded'] = [BoundedType.BOUNDED, BoundedType.SEMI_BOUNDED,
                                 BoundedType.UNBOUNDED][(h // 16) % 3]
        ctx.probes['filters_given_next_to_explicit_list'] += 1
    uni = Univariate(**kwargs)
    cand_list = kwargs['candidates']
    cand_ids = [id(o) for o in cand_list]
    with sterile(run['state']), RngRecorder() as rec:
        out = outcome(uni.fit, X)
    ctx.stats['fits'] += 1
    if [id(o) for o in cand_list] != cand_ids or [id(o) for o in uni.candidates] != cand_ids:
        ctx.violate('b_explicit_candidate_list_honoured', SUBJ_UNI,
                    'the explicit candidate list had %d entries before fit and has %d after '
                    '(model.candidates: %d)' % (len(cand_ids), len(cand_list),
                                                len(uni.candidates)),
                    n_candidates=len(cand_ids))
    # which candidates survive selection, by the fault schedule
    survivors = []
    fired = 0
    for c, (o, shared) in zip(run['cands'], objs):
        fails_in_selection = c['form'] == 'wrap' and c['mode'] in ('first', 'always')
        if shared is not None:
            fired += shared['failed']
            if shared['failed']:
                ctx.faults['F2_plugin_fit_raised:' + c['mode']] += shared['failed']
        if c['form'] == 'wrap' and c['mode'] == 'nancdf':
            ctx.faults['F2_plugin_nan_cdf'] += 1
            ctx.probes['nan_cdf_candidate_present'] += 1
            continue
        if not fails_in_selection:
            survivors.append(c)
    # the sample the selection ran on
    sample = X
    sample_known = True
    if run.get('selection_sample_size') and run['selection_sample_size'] < len(X):
        ch = [c for c in rec.calls if c['name'] == 'choice']
        if len(ch) == 1 and np.shape(ch[0]['result']) == (run['selection_sample_size'],):
            sample = np.asarray(ch[0]['result'], dtype=float)
            ctx.probes['selection_subsample_recorded'] += 1
        else:
            sample_known = False
            ctx.probes['selection_subsample_protocol_unrecognised'] += 1
    ks = {}
    for c in survivors:
        k = _ref_ks(c, sample) if sample_known else None
        if k is not None:
            ks[_cand_ident(c)] = k
    pattern = ''.join('1' if _cand_ident(c) in ks else '0' for c in run['cands'])
    cond = {'n_candidates': len(run['cands']), 'survivors': len(ks),
            'subsample': bool(run.get('selection_sample_size')),
            'modes': sorted(c.get('mode', c['form']) for c in run['cands'])}
    if fired or len(ks) >= 2:
        ctx.nontrivial = True
    if not ks:
        ctx.probes['all_candidates_failed'] += 1
        ctx.event('select', pattern, outcome_class(out))
        return pattern, 'none'
    if out[0] != 'ok':
        # only legitimate if the would-be winner was scheduled to fail at its final fit
        best = min(ks, key=ks.get)
        second_modes = {c['tag'] for c in run['cands'] if c['form'] == 'wrap'
                        and c['mode'] == 'second'}
        if second_modes:
            ctx.probes['winner_failed_at_final_fit'] += 1
        else:
            ctx.violate('a_fit_succeeds_when_a_candidate_can_be_fitted', SUBJ_UNI,
                        'fit raised %s although %d candidate(s) can be fitted (best %s)'
                        % (outcome_class(out), len(ks), best), **cond)
        ctx.event('select', pattern, outcome_class(out))
        return pattern, 'raised'
    winner = _ident(uni._instance, run['cands'])
    all_ids = [_cand_ident(c) for c in run['cands']]
    if winner not in all_ids:
        ctx.violate('b_selected_family_is_a_candidate', SUBJ_UNI,
                    'selected %s is not in the candidate list %s' % (winner, all_ids), **cond)
    elif sample_known:
        if winner not in ks:
            ctx.violate('a_selected_candidate_survived_selection', SUBJ_UNI,
                        'selected %s, which failed (or had no KS statistic) during selection; '
                        'survivors %s' % (winner, sorted(ks)), **cond)
        else:
            best = min(ks.values())
            if ks[winner] > best + 1e-12:
                ctx.violate('a_selected_candidate_has_minimal_ks', SUBJ_UNI,
                            'selected %s with KS %.6f, but %s has KS %.6f'
                            % (winner, ks[winner], min(ks, key=ks.get), best), **cond)
    ctx.event('select', pattern, winner, sorted(ks.items()))
    return pattern, winner


def _run_filter(ctx, run):
    from copulas.univariate import BoundedType, ParametricType, Univariate
    par = getattr(ParametricType, run['parametric']) if run['parametric'] else None
    bnd = getattr(BoundedType, run['bounded']) if run['bounded'] else None
    uni = Univariate(parametric=par, bounded=bnd)
    got = sorted(c.__name__ if isinstance(c, type) else str(c) for c in uni.candidates)
    want = sorted(zoo.short(gmvlib.FAM[f]) for f, (p, b) in TAGS.items()
                  if (run['parametric'] in (None, p)) and (run['bounded'] in (None, b)))
    cond = {'parametric': run['parametric'], 'bounded': run['bounded']}
    ctx.nontrivial = True
    if not want:
        # an empty selection falls back to ... whatever `candidates or` yields: not gated
        ctx.probes['filter_selects_nothing'] += 1
    elif got != want:
        ctx.violate('b_candidate_set_honours_filters', 'copulas.univariate.base.Univariate',
                    'candidates %s, reference tag table gives %s' % (got, want), **cond)
    X = zoo.gen_data(run['data'])
    if want:
        with sterile(run['state']):
            out = outcome(uni.fit, X)
        ctx.stats['fits'] += 1
        if out[0] == 'ok':
            winner = type(uni._instance).__name__
            if winner not in want:
                ctx.violate('b_selected_family_is_a_candidate', SUBJ_UNI,
                            'selected %s outside the filtered set %s' % (winner, want), **cond)
            ks = {}
            for f, (p, b) in TAGS.items():
                if zoo.short(gmvlib.FAM[f]) in want:
                    k = _ref_ks(f, X)
                    if k is not None:
                        ks[zoo.short(gmvlib.FAM[f])] = k
            if winner in ks and ks[winner] > min(ks.values()) + 1e-12:
                ctx.violate('a_selected_candidate_has_minimal_ks', SUBJ_UNI,
                            'selected %s with KS %.6f, but %s has KS %.6f'
                            % (winner, ks[winner], min(ks, key=ks.get), min(ks.values())), **cond)
            ctx.event('filter', got, winner)
            return ','.join(got), winner
    ctx.event('filter', got)
    return ','.join(got), '-'


def _run_gmv(ctx, run):
    from copulas.multivariate import GaussianMultivariate
    from copulas.univariate import Univariate
    df, _R = zoo.gen_table(run['table'])
    if run.get('index') == 'filtered':
        df = df.iloc[::2]
    elif run.get('index') == 'shifted':
        df.index = df.index + 1000
    elif run.get('index') == 'labels':
        df.index = ['row%d' % i for i in range(len(df))]
    if run.get('index', 'range') != 'range':
        ctx.probes['training_frame_with_non_default_index'] += 1
    cfg = run['config']
    d = df.shape[1]
    protos = {}
    expected = {}       # column -> ('type', name) | ('member', set) | ('gaussian',)
    if cfg['form'] == 'proto':
        obj, shared = _make_cand(cfg['cand'])
        dist = obj
        protos['D'] = (obj, shared, cfg['cand'])
    elif cfg['form'] in ('class', 'name'):
        dist, _ = _make_cand(cfg['cand'])
    elif cfg['form'] == 'dict':
        dist = {}
        for col, c in cfg['cols'].items():
            obj, shared = _make_cand(c)
            dist[col] = obj
            protos[col] = (obj, shared, c)
        dist = zoo.make_map(dist, cfg.get('mapkind'))    # dict, OrderedDict or a dict subclass
    else:
        objs = [_make_cand(c) for c in cfg['cands']]
        kw_ = {}
        if cfg.get('selection_sample_size'):
            kw_['selection_sample_size'] = cfg['selection_sample_size']
        if run['state'] % 2:
            dist = Univariate([o for o, _ in objs], **kw_)   # positional prototype argument
        else:
            dist = Univariate(candidates=[o for o, _ in objs], **kw_)
        protos['U'] = (dist, None, None)
        for (o, sh), c in zip(objs, cfg['cands']):
            protos[c['tag']] = (o, sh, c)
    before = {k: _proto_state(p[0]) for k, p in protos.items()}
    dist_items = [(k, id(v)) for k, v in dist.items()] if isinstance(dist, dict) else None
    mkw = {}
    if derive_seed('seeded_model', run['table']['seed']) % 3 == 0:
        # a seeded model: the seed is the model's, the marginals are configured as given
        mkw['random_state'] = run['state'] % 100000
        ctx.probes['seeded_multivariate_model'] += 1
    model = GaussianMultivariate(distribution=dist, **mkw)
    with sterile(run['state']):
        out = outcome(model.fit, df)
    ctx.stats['fits'] += 1
    cond = {'form': cfg['form'], 'd': d}
    fired = 0
    for k, (obj, shared, c) in protos.items():
        if shared:
            fired += shared['failed']
            if shared['failed']:
                ctx.faults['F2_plugin_fit_raised:' + c['mode']] += shared['failed']
    if fired:
        ctx.nontrivial = True
    if out[0] != 'ok':
        ctx.violate('c_fit_never_raises_because_of_a_marginal', SUBJ_GMV,
                    'fit raised %s: %s (injected failures fired: %d)'
                    % (outcome_class(out), str(out[1])[:120], fired), fired=fired, **cond)
        ctx.event('gmv', cfg['form'], outcome_class(out))
        return cfg['form'], 'raised'
    types = []
    for j, (col, uni) in enumerate(zip(model.columns, model.univariates)):
        t = outcome(lambda: uni.to_dict()['type'])
        tname = zoo.short(t[1]) if t[0] == 'ok' else 'ERR:' + outcome_class(t)
        inst = getattr(uni, '_instance', None)
        if tname == 'FailingMarginal' and isinstance(inst, FailingMarginal):
            # a selecting wrapper reports the class of what it selected: look through the
            # simulator's own plug-in to the family it delegates to
            tname = type(inst._inner).__name__
        types.append(tname)
        exp = _expected_type(cfg, col, j, protos)
        if exp[0] == 'type':
            # the configured family itself may be unable to fit this column (no injected
            # fault involved): decided by a fault-free attempt with a fresh instance
            fresh = [v for v in gmvlib.FAM.values() if zoo.short(v) == exp[1]]
            if fresh:
                with sterile(run['state']):
                    nat = outcome(zoo.load_class(fresh[0])().fit, df[col])
                if nat[0] != 'ok':
                    ctx.probes['configured_family_cannot_fit_naturally'] += 1
                    exp = ('gaussian',)
        if exp[0] == 'default':
            # "the default for unnamed columns": what a fresh default Univariate selects on
            # this column alone
            from copulas.univariate import Univariate
            with sterile(run['state']):
                dref = Univariate()
                dfit = outcome(dref.fit, df[col])
            if dfit[0] == 'ok' and getattr(dref, '_instance', None) is not None:
                exp = ('type', type(dref._instance).__name__)
                ctx.probes['unnamed_column_compared_with_default_selection'] += 1
            else:
                exp = ('member', {zoo.short(v) for v in gmvlib.FAM.values()})
        c2 = dict(cond, column=j, expected=str(exp))
        if exp[0] == 'type' and tname != exp[1]:
            ctx.violate('c_column_modelled_by_configured_distribution', SUBJ_GMV,
                        'column %r: configured %s (did not fail), model has %s'
                        % (col, exp[1], tname), **c2)
        elif exp[0] == 'gaussian' and tname != 'GaussianUnivariate':
            ctx.violate('c_failed_marginal_replaced_by_gaussian', SUBJ_GMV,
                        'column %r: its marginal failed, model has %s instead of a Gaussian'
                        % (col, tname), **c2)
        elif exp[0] == 'member' and tname not in exp[1]:
            ctx.violate('c_column_modelled_by_configured_distribution', SUBJ_GMV,
                        'column %r: model has %s, not one of the candidates %s'
                        % (col, tname, sorted(exp[1])), **c2)
        if exp[0] == 'gaussian':
            ctx.probes['gaussian_fallback_expected'] += 1
        # "the column is modelled by ..." means by a model of THAT column: compare with a fresh
        # instance of the expected family fitted on this column alone
        fresh_name = 'GaussianUnivariate' if exp[0] == 'gaussian' else (
            exp[1] if exp[0] == 'type' else None)
        c_spec = (cfg.get('cols') or {}).get(str(col)) if cfg['form'] == 'dict' else cfg.get('cand')
        plain = fresh_name and tname == fresh_name and (
            exp[0] == 'gaussian' or (c_spec or {}).get('form') in ('class', 'name'))
        if plain:
            full = [v for v in gmvlib.FAM.values() if zoo.short(v) == fresh_name]
            with sterile(run['state']):
                ref = zoo.load_class(full[0])()
                o = outcome(ref.fit, df[col])
            if o[0] == 'ok':
                from copsim.core import same
                a_, b_ = outcome(uni.to_dict), outcome(ref.to_dict)
                ctx.stats['column_model_comparisons'] += 1
                if a_[0] == 'ok' and b_[0] == 'ok' and not same(a_[1], b_[1]):
                    ctx.violate('c_column_model_is_fitted_to_its_own_column', SUBJ_GMV,
                                'column %r: the %s in the model has parameters %s, a fresh %s '
                                'fitted on this column has %s'
                                % (col, tname, {k: v for k, v in a_[1].items() if k != 'type'},
                                   fresh_name, {k: v for k, v in b_[1].items() if k != 'type'}),
                                **c2)
    if not model.fitted:
        ctx.violate('c_model_fitted_after_fallback', SUBJ_GMV, 'fitted flag is False', **cond)
    with sterile(run['state'] + 1):
        s = outcome(model.sample, 5)
    if s[0] != 'ok' or len(s[1]) != 5 or list(s[1].columns) != list(df.columns):
        ctx.violate('c_model_can_sample_after_fallback', SUBJ_GMV,
                    'sample(5) after fit: %s' % (outcome_class(s),), **cond)
    if dist_items is not None and [(k, id(v)) for k, v in dist.items()] != dist_items:
        ctx.violate('d_configuration_dict_not_modified_by_use', SUBJ_GMV,
                    'the caller\'s per-column distribution dict changed during fit '
                    '(%d entries before, %d after, or other values)'
                    % (len(dist_items), len(dist)), **cond)
    # (d) prototypes are configuration, not models: unchanged by use
    for k, (obj, shared, c) in protos.items():
        if _proto_state(obj) != before[k]:
            ctx.violate('d_prototype_not_modified_by_use', SUBJ_GMV,
                        'prototype %s changed: %s -> %s' % (k, before[k], _proto_state(obj)),
                        **cond)
    if cfg['form'] == 'dict' and len(cfg['cols']) < d:
        ctx.probes['dict_config_with_unnamed_column'] += 1
    if cfg['form'] in ('proto', 'uni_proto'):
        ctx.probes['prototype_instance_config'] += 1
    ctx.event('gmv', cfg['form'], types)
    return cfg['form'], ','.join(types)


def _proto_state(obj):
    if isinstance(obj, FailingMarginal):
        return ('wrap', obj.fitted, getattr(obj._inner, 'fitted', None),
                getattr(obj._inner, '_params', None) is None)
    if isinstance(obj, (str, type)):
        return ('static',)
    cands = getattr(obj, 'candidates', None)
    return ('inst', getattr(obj, 'fitted', None), getattr(obj, '_params', None) is None,
            getattr(obj, '_instance', None) is None,
            None if cands is None else tuple(id(c) for c in cands))


def _expected_type(cfg, col, j, protos):
    """What the property says the column must be modelled by, given the fault schedule."""
    def of_cand(c, fit_index):
        name = zoo.short(gmvlib.FAM[c['fam']])
        if c['form'] != 'wrap':
            return ('type', name)
        mode = c['mode']
        if mode == 'always' or (mode == 'first' and fit_index == 1) or \
                (mode == 'second' and fit_index == 2):
            return ('gaussian',)
        return ('type', name)
    if cfg['form'] == 'proto':
        return of_cand(cfg['cand'], j + 1)       # one shared counter, one fit per column
    if cfg['form'] in ('class', 'name'):
        return of_cand(cfg['cand'], 1)
    if cfg['form'] == 'dict':
        c = cfg['cols'].get(str(col))
        if c is None:
            return ('default',)
        return of_cand(c, 1)
    # selecting prototype: a member of its candidate set, or the Gaussian fallback if the
    # selection cannot produce a fitted model (depends on shared counters across columns)
    names = {zoo.short(gmvlib.FAM[c['fam']]) for c in cfg['cands']}
    if all(c['form'] != 'wrap' for c in cfg['cands']):
        # no injected failure can hit the selection: a Gaussian here would be the fallback of
        # a selection that - with these fault-free candidates - can be fitted
        return ('member', names)
    return ('member', names | {'GaussianUnivariate'})


def execute(run):
    ctx = Ctx(run)
    ctx.op_index = 0
    if run['kind'] == 'select':
        a, b = _run_select(ctx, run)
    elif run['kind'] == 'filter':
        a, b = _run_filter(ctx, run)
    else:
        a, b = _run_gmv(ctx, run)
    multiset = ','.join(sorted((c['fam'] + ':' + c.get('mode', c['form']))
                               for c in run.get('cands', []))) or run['kind']
    st = '|'.join([run['kind'], multiset, str(a), str(b)])
    ctx.states.add(st)
    ctx.shape.append(st)
    return ctx.result()
