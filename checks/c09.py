"""C09 - Bivariate copula samples have uniform margins and the model's dependence.

The sample is a function of the two uniform draws recorded at the RNG seam.  Exact oracle
(Rosenblatt refinement): one output column *is* one draw v bit for bit, and the reference
h-function of the other column given v reproduces the other draw c.  Distribution-free
bands (DKW, Hoeffding for Kendall's tau, Naaman for the joint CDF) gate at large n and are
the only gate when the draw protocol is not recognised."""

import copy

import math

import numpy as np

from copsim import refs, zoo
from copsim.core import Ctx, outcome, outcome_class, state_digest
from copsim.seams import RngRecorder

PROPERTY = 'C09'
LEVEL = 'exploration'
TIERS = {
    'quick': {'runs': 1500, 'wall': 150, 'batch': 8},
    'thorough': {'runs': 60000, 'wall': 840, 'batch': 8},
}
RULE = ('Each run = one Clayton/Frank/Gumbel model (theta assigned from tau on a grid or at '
        'random with |tau|<=0.8, or fitted on simulator-made pseudo-observations), a seed kind '
        '(None/int/RandomState), and 1-3 sample calls (n in 1..4000, 40000 in thorough) '
        'interleaved with foreign draws/reseeds of the global generator; the uniform draws are '
        'recorded at the RNG seam. Non-trivial = at least one sample call whose draws were '
        'recorded; distinct = distinct (family, tau bucket, how, seed kind, n classes, outcome) '
        'shapes.')
STATE_MEASURE = 'distinct (family, tau bucket, n class, seed kind, protocol class) tuples'
STUBS = ['recording wrappers around numpy.random.uniform & co. (real MT19937 underneath)',
         '"application" client drawing from the global generator']
ASSUMPTIONS = [
    'closed-form h-functions in copsim/refs.py are an independent, correct reference',
    'exact oracle applies only when the recorded history is two uniform(0,1,n) draws of which '
    'one reappears verbatim as an output column (protocol recognition); otherwise bands only',
    'bands: total false-alarm probability <= 1e-9 per run (union bound over 4 tests per call)',
]
ALPHA = 1e-9 / 12.0       # <= 3 band-gated calls x 4 tests per run
EPS32 = float(np.finfo(np.float32).eps)
FAMILY = {'Clayton': 'CLAYTON', 'Frank': 'FRANK', 'Gumbel': 'GUMBEL'}
TAU_GRID = [0.05, 0.1, 0.2, 0.3, 0.4, 0.5, 0.6, 0.7, 0.8]


def generate(rng, tier, idx):
    fam = rng.choice(['Clayton', 'Frank', 'Gumbel'])
    tau = rng.choice(TAU_GRID) if rng.random() < 0.5 else round(rng.uniform(0.02, 0.8), 4)
    if fam == 'Frank' and rng.random() < 0.45:
        tau = -tau
    if fam == 'Gumbel' and rng.random() < 0.08:
        tau = 0.0                       # theta == 1: the closed lower edge of the Gumbel domain
    edge_clayton = fam == 'Clayton' and rng.random() < 0.06
    how = 'fit' if rng.random() < 0.3 else 'param'
    big = 40000 if tier == 'thorough' else 4000
    ops = []
    for _ in range(rng.randint(1, 3)):
        if rng.random() < 0.6:
            ops.append({'op': rng.choice(['app_draw', 'app_reseed']),
                        'k': rng.randint(1, 100), 's': rng.randrange(2**31)})
        r = rng.random()
        n = rng.choice([1, 2, 10, 50, 500]) if r < 0.8 else big
        if fam != 'Clayton' and n == big and tier != 'thorough' and rng.random() < 0.5:
            n = 2000
        if n >= 2000:
            # not only round sizes: a batch that is cut into blocks has a last, partial block
            n += [0, -1, 1, 337, -500, 512][(idx * 7 + len(ops)) % 6]
        ops.append({'op': 'sample', 'n': n})
    if rng.random() < 0.2:
        # many tiny calls: whole-batch shortcuts in the inverse (all rows degenerate, ...) only
        # trigger when a batch has one or two rows
        ops.append({'op': 'burst', 'k': rng.choice([20, 40]), 'n': rng.choice([1, 1, 2])})
    if rng.random() < 0.3:
        # history: the same instance is re-parameterised in place (as the vine code does with
        # ``copula.theta = ...``) and sampled again
        t2 = rng.choice(TAU_GRID)
        if fam == 'Frank' and rng.random() < 0.5:
            t2 = -t2
        op_r = {'op': 'reparam', 'tau': t2, 'how': rng.choice(['assign', 'compute'])}
        if fam == 'Frank' and rng.random() < 0.4:
            op_r['mirror'] = True         # exactly the mirrored dependence of the current model
            op_r['how'] = 'compute'
        ops.append(op_r)
        ops.append({'op': 'sample', 'n': rng.choice([10, 2000, 2000])})
    if fam != 'Frank' and rng.random() < 0.15:
        # history: a refit on data the family refuses (negative dependence); the caller keeps
        # the object.  Whatever the object does afterwards, a sample it returns must obey the
        # model's own (tau, theta) - or the object refuses to sample
        ops.append({'op': 'refit_refused', 'data': {'kind': 'pobs', 'n': 200,
                                                    'tau': -rng.choice([0.3, 0.6]),
                                                    'seed': rng.randrange(2**31)}})
        ops.append({'op': 'sample', 'n': 2000, 'may_refuse': True})
    run = {'family': fam, 'tau': tau, 'how': how, 'seed': zoo.rand_seedspec(rng),
           'g0': rng.randrange(2**31), 'ops': ops,
           # theta from the model's own calibration routine instead of the reference map
           'via_compute': rng.random() < 0.4}
    if how == 'fit':
        run['fit_data'] = {'kind': 'pobs', 'n': rng.randint(150, 400), 'tau': tau,
                           'seed': rng.randrange(2**31)}
    if not edge_clayton and rng.random() < 0.06:
        # theta given as a Python int (a hand-written dict / JSON file yields ints)
        run.update({'how': 'param_int', 'theta_int': rng.choice([1, 2, 3, 5] if fam != 'Gumbel'
                                                              else [2, 3, 4])})
        run.pop('fit_data', None)
        run['ops'].append({'op': 'sample', 'n': 2000})
    if edge_clayton:
        # tau == 0 is outside Clayton's domain (theta in (0, inf)): the object may refuse to
        # sample, but a sample it does return has to be a sample of the model it claims to be
        run.update({'how': 'param_numpy', 'tau': 0.0})
        run.pop('fit_data', None)
        for o in run['ops']:
            if o['op'] == 'sample':
                o['may_refuse'] = True
    return run


def fixed_runs(tier):
    """The tau grid for each family at a band-size n (both signs for Frank)."""
    runs = []
    n = 20000 if tier == 'thorough' else 3000
    for fam in ('Clayton', 'Frank', 'Gumbel'):
        taus = [0.1, 0.5, 0.8] if tier != 'thorough' else TAU_GRID
        if fam == 'Frank':
            taus = taus + [-t for t in taus]
        if fam == 'Gumbel':
            taus = [0.0] + taus
        for t in taus:
            n_t = n + [0, -1, 337, 1, 512][len(runs) % 5]
            runs.append({'family': fam, 'tau': t, 'how': 'param',
                         'seed': {'kind': 'int', 'v': 5}, 'g0': 1,
                         'ops': [{'op': 'sample', 'n': 3}, {'op': 'sample', 'n': n_t}]})
    return runs


def simplify(run):
    for i, op in enumerate(run['ops']):
        if op['op'] == 'sample' and op['n'] > 1:
            for small in (1, 10, 500):
                if small < op['n']:
                    cand = copy.deepcopy(run)
                    cand['ops'][i]['n'] = small
                    yield cand
    if run['how'] == 'fit':
        cand = copy.deepcopy(run)
        cand['how'] = 'param'
        yield cand
    if run.get('seed') and run['seed']['kind'] != 'int':
        cand = copy.deepcopy(run)
        cand['seed'] = {'kind': 'int', 'v': 1}
        yield cand


def _build(run, ctx):
    cls = zoo.load_class('copulas.bivariate.%s.%s' % (run['family'].lower(), run['family']))
    seed = zoo.make_seed(run['seed'])
    model = cls(random_state=seed) if seed is not None else cls()
    fam = FAMILY[run['family']]
    if run['how'] == 'fit':
        X = zoo.gen_data(run['fit_data'])
        out = outcome(model.fit, X)
        if out[0] != 'ok':
            ctx.probes['fit_refused:' + outcome_class(out)] += 1
            return None, fam
        if model.tau is None or not (abs(model.tau) <= 0.8) or abs(model.tau) < 0.01:
            ctx.probes['fitted_tau_outside_quantifier'] += 1
            return None, fam
    elif run['how'] == 'param_int':
        model.theta = int(run['theta_int'])
        model.tau = refs.tau_of_theta(fam, float(model.theta))
    elif run['how'] == 'param_numpy':
        model.tau = np.float64(run['tau'])
        model.theta = np.float64(model.compute_theta())
    else:
        model.tau = run['tau']
        if run.get('via_compute') and run['tau'] != 0:
            model.theta = model.compute_theta()
        else:
            model.theta = refs.theta_of_tau(fam, run['tau'])
    return model, fam


def _check_call(ctx, run, model, fam, n, subject, may_refuse=False):
    theta, tau = float(model.theta), float(model.tau)
    cond = {'family': fam, 'n': n, 'tau_sign': 'neg' if tau < 0 else 'pos',
            'how': run['how'], 'seeded': run['seed'] is not None}
    with RngRecorder() as rec:
        out = outcome(model.sample, n)
    ctx.stats['sample_calls'] += 1
    ctx.stats['draw_calls_recorded'] += len(rec.calls)
    if out[0] != 'ok' and may_refuse:
        ctx.probes['sample_refused_outside_domain:' + outcome_class(out)] += 1
        return 'refused'
    if out[0] != 'ok':
        ctx.violate('a_returns_n_by_2_array', subject,
                    'sample(%d) raised %s: %s' % (n, outcome_class(out), str(out[1])[:120]),
                    clause='raised', exc=outcome_class(out), **cond)
        return 'raised'
    S = out[1]
    # (c0) the sample follows C_theta (refined below, row by row); the Kendall tau of C_theta is
    # a closed-form function of theta, so "the sample's rank correlation equals the model's
    # tau" has a deterministic half: tau(theta) == model.tau (solver accuracy 6e-5 for Frank)
    try:
        tau_theta = float(refs.tau_of_theta(fam, theta))
    except Exception:
        tau_theta = None
    if tau_theta is not None and math.isfinite(tau_theta) and abs(tau) <= 0.8:
        ctx.stats['tau_theta_coherence_checks'] += 1
        if abs(tau_theta - tau) > 1e-3:
            ctx.violate('c_model_tau_is_kendall_tau_of_model_theta', subject,
                        'the model says tau = %.6f, the copula it samples from (theta = %.6f) '
                        'has Kendall tau %.6f' % (tau, theta, tau_theta), **cond)
    # (a) shape / range
    if not isinstance(S, np.ndarray) or S.shape != (n, 2):
        ctx.violate('a_returns_n_by_2_array', subject,
                    'shape %r' % (getattr(S, 'shape', None),), clause='shape', **cond)
        return 'badshape'
    if not np.all(np.isfinite(S)) or S.min() < 0.0 or S.max() > 1.0:
        ctx.violate('a_finite_in_unit_square', subject,
                    'min %r max %r finite %r' % (S.min(), S.max(), bool(np.isfinite(S).all())),
                    clause='range', **cond)
        return 'badrange'
    # (b) Rosenblatt refinement on the recorded draws
    proto = 'unrecognised'
    uni = [c for c in rec.calls if c['name'] in ('uniform', 'random', 'random_sample', 'rand')
           and isinstance(c['result'], np.ndarray) and c['result'].shape == (n,)]
    if len(rec.calls) == 2 and len(uni) == 2:
        d0, d1 = uni[0]['result'], uni[1]['result']
        match = None
        for col in (1, 0):
            for k, d in enumerate((d0, d1)):
                if match is None and np.array_equal(S[:, col], d):
                    match = (col, k)
        if match is not None and (n >= 2 or True):
            proto = 'two_uniforms_one_verbatim'
            col, k = match
            v = S[:, col]
            u = S[:, 1 - col]
            c = (d0, d1)[1 - k]
            with np.errstate(all='ignore'):
                h = refs.hfunc(fam, theta, np.clip(u, 1e-300, 1.0), v)
                dens = refs.density(fam, theta, np.clip(u, 1e-300, 1.0), v)
                h_lo = refs.hfunc(fam, theta, np.full(n, EPS32), v)
            tol = 1e-6 + 1e-9 * np.where(np.isfinite(dens), dens, 0.0)
            at_end = ((u <= EPS32 * 1.01) & (c <= h_lo + 1e-12)) | ((u >= 1.0 - 1e-9) & (c >= 1.0 - 1e-6))
            degenerate = ~np.isfinite(h) | (v <= 0) | (v >= 1)
            bad = (np.abs(h - c) > tol) & ~at_end & ~degenerate
            ctx.probes['root_at_bracket_end'] += int(np.sum(at_end))
            ctx.stats['rows_refined_exactly'] += int(n - np.sum(degenerate))
            if bad.any():
                i = int(np.argmax(bad))
                ctx.violate('b_rosenblatt_refinement', subject,
                            'row %d: u=%r v=%r draw c=%r but reference h(u|v)=%r (theta=%r)'
                            % (i, float(u[i]), float(v[i]), float(c[i]), float(h[i]), theta),
                            clause='h(u|v)!=c', **cond)
    if proto == 'unrecognised':
        ctx.probes['protocol_unrecognised'] += 1
    # (c) distribution-free bands
    if n >= 2000:
        ctx.stats['band_checks'] += 1
        eps = refs.dkw_eps(n, ALPHA)
        for j in (0, 1):
            ks = refs.ks_distance(S[:, j], lambda x: np.clip(x, 0, 1))
            if ks > eps:
                ctx.violate('c_margin_uniform_dkw', subject,
                            'column %d: KS distance to U(0,1) %.4f > DKW eps %.4f (n=%d)'
                            % (j, ks, eps, n), clause='margin', **cond)
        that = refs.kendall_tau(S[:, 0], S[:, 1])
        et = refs.hoeffding_tau_eps(n, ALPHA)
        if abs(that - tau) > et:
            ctx.violate('c_kendall_tau_hoeffding', subject,
                        'sample tau %.4f vs model tau %.4f, band %.4f (n=%d)'
                        % (that, tau, et, n), clause='tau', **cond)
        # closed grid: the boundary of the unit square belongs to the copula (C(u,0) = 0,
        # C(u,1) = u), and a batch that mixes boundary and interior rows is the ordinary case
        g = np.concatenate([[0.0], np.linspace(0.05, 0.95, 19), [1.0]])
        G = np.array([[a, b] for a in g for b in g])
        emp = np.array([np.mean((S[:, 0] <= a) & (S[:, 1] <= b)) for a, b in G])
        mod = outcome(model.cumulative_distribution, G)
        if mod[0] == 'ok':
            en = refs.naaman_eps(n, 2, ALPHA)
            dev = float(np.max(np.abs(emp - np.asarray(mod[1], dtype=float))))
            if dev > en:
                ctx.violate('c_joint_cdf_naaman', subject,
                            'sup |empirical joint CDF - cumulative_distribution| = %.4f > %.4f'
                            % (dev, en), clause='joint', **cond)
    return proto


def execute(run):
    ctx = Ctx(run)
    np.random.seed(run['g0'] % (2**32))
    model, fam = _build(run, ctx)
    if model is None:
        ctx.event('build', run['family'], 'skipped')
        return ctx.result()
    subject = type(model).__module__ + '.' + type(model).__name__ + '.sample'
    tb = '%+.1f' % (round(float(model.tau) * 5) / 5.0)
    after_refusal = False
    for i, op in enumerate(run['ops']):
        ctx.op_index = i
        ctx.stats['ops'] += 1
        if op['op'] == 'app_draw':
            np.random.random(op['k'])
            ctx.faults['F5_foreign_draws'] += 1
        elif op['op'] == 'app_reseed':
            np.random.seed(op['s'] % (2**32))
            ctx.faults['F5_foreign_reseed'] += 1
        elif op['op'] == 'reparam':
            model.tau = -float(model.tau) if op.get('mirror') else op['tau']
            if op['how'] == 'compute':
                model.theta = model.compute_theta()
            else:
                model.theta = refs.theta_of_tau(fam, op['tau'])
            tb = '%+.1f' % (round(float(model.tau) * 5) / 5.0)
            ctx.probes['reparameterised_in_place'] += 1
            ctx.event('reparam', float(model.tau), float(model.theta))
        elif op['op'] == 'refit_refused':
            X = zoo.gen_data(op['data'])
            o = outcome(model.fit, X)
            ctx.probes['refit_on_refused_data:' + outcome_class(o)] += 1
            after_refusal = True           # from here on the object may refuse to sample
            ctx.event('refit_refused', outcome_class(o))
            if model.theta is None or model.tau is None:
                break
        elif op['op'] == 'burst':
            for _ in range(op['k']):
                proto = _check_call(ctx, run, model, fam, op['n'], subject,
                                    run.get('how') == 'param_numpy' or after_refusal)
                if proto in ('raised', 'badshape', 'badrange', 'refused') or ctx.violations:
                    break
            ctx.nontrivial = True
            ctx.probes['burst_of_tiny_calls'] += 1
            ctx.event('burst', op['k'], op['n'], proto, state_digest())
        elif op['op'] == 'sample':
            n = op['n']
            proto = _check_call(ctx, run, model, fam, n, subject,
                                op.get('may_refuse', False) or after_refusal)
            ctx.nontrivial = True
            ncls = '1' if n == 1 else ('small' if n < 2000 else 'band')
            if n == 1:
                ctx.probes['n_equals_1'] += 1
            if float(model.tau) < 0:
                ctx.probes['negative_tau_sampled'] += 1
            st = '|'.join([fam, tb, run['how'], (run['seed'] or {}).get('kind', 'none'),
                           ncls, proto])
            ctx.states.add(st)
            ctx.shape.append(st)
            ctx.event('sample', n, proto, state_digest())
    return ctx.result()
