"""C12 - Conditional sampling fixes the given columns and follows the conditional law.

The conditional mean and covariance are *arguments of the multivariate-normal draw
recorded at the RNG seam*; they are compared with an independent partitioned-normal
reference.  The conditions container is simulator-owned memory: fingerprinted before and
after, and re-used for a second call under the same pinned RNG state."""

import copy
import itertools
import math

import numpy as np
import pandas as pd
from scipy import stats

from checks import gmvlib
from copsim import refs, zoo
from copsim.core import Ctx, outcome, outcome_class, same, state_digest
from copsim.seams import RngRecorder, fingerprint, with_global_state

PROPERTY = 'C12'
LEVEL = 'exploration'
TIERS = {
    'quick': {'runs': 1600, 'wall': 150, 'batch': 6},
    'thorough': {'runs': 30000, 'wall': 840, 'batch': 6},
}
RULE = ('Each run = a fitted GaussianMultivariate (2-6 columns incl. constant and duplicated '
        'columns, every marginal configuration form) and 1-4 conditional sample calls: a '
        'non-empty proper subset of columns (all subsets enumerated for <= 4 columns over the '
        'fixed runs, random above), values inside / at the extremes / far outside the training '
        'range, dict or pandas.Series container, the same container object re-used for a second '
        'call; the conditional draw is recorded at the RNG seam. Non-trivial = a conditional '
        'call whose draw was recorded; distinct = distinct (d, subset size, container, value '
        'kinds, marginal types, protocol) shapes.')
STATE_MEASURE = 'distinct (d, conditioning subset size, container, value kinds, marginal types)'
STUBS = ['recording wrapper around numpy.random.multivariate_normal',
         'simulator-owned conditions containers (fingerprinted)']
ASSUMPTIONS = [
    'marginal cdf/percent_point assumed correct (C03); model.correlation taken as the fitted R',
    'reference conditional law uses numpy.linalg.solve on the same R; tolerance 1e-6',
    'bands (fallback, n >= 2000): false-alarm probability <= 1e-9 per run',
]
SUBJECT = 'copulas.multivariate.gaussian.GaussianMultivariate.sample'
EPS32 = float(np.finfo(np.float32).eps)


def _rand_values(rng, k):
    kinds = []
    for _ in range(k):
        kinds.append(rng.choice(['inside', 'inside', 'min', 'max', 'far_low', 'far_high', 'mean']))
    return kinds


def _ops_for(rng, d, thorough):
    ops = []
    for _ in range(rng.randint(1, 4)):
        size = rng.randint(1, d - 1)
        subset = sorted(rng.sample(range(d), size))
        n = rng.choice([1, 2, 8, 50, 50])
        if rng.random() < 0.15:
            n = (20000 if thorough and rng.random() < 0.3 else 2000) \
                + [0, 1, 337, 999, 500][(d + len(ops) + size) % 5]   # not only round batch sizes
        ops.append({'op': 'sample_cond', 'cols': subset, 'kinds': _rand_values(rng, size),
                    'q': [round(rng.random(), 4) for _ in subset],
                    'container': rng.choice(['dict', 'series', 'series', 'series_int', 'dict_int']),
                    'order': rng.choice(['asc', 'desc', 'perm', 'perm']),
                    'perm_seed': rng.randrange(10**6), 'n': n,
                    'reuse': rng.random() < 0.6})
        if rng.random() < 0.3:
            ops.append({'op': 'app_draw', 'k': rng.randint(1, 50)})
    return ops


def generate(rng, tier, idx):
    thorough = tier == 'thorough'
    table = zoo.rand_table_spec(
        rng, 2, 6 if thorough or rng.random() < 0.3 else 4, 150, 600 if thorough else 300,
        constant_p=0.12,
        patterns=('random', 'random', 'chain', 'star', 'equi', 'neg', 'weak', 'dup'))
    d = len(table['margs'])
    names = ['c%d' % i for i in range(d)]
    if rng.random() < 0.3:
        # column names whose sorted order differs from the training order
        names = ['z%d' % (d - i) for i in range(d)]
        table['names'] = names
    config = gmvlib.rand_config(rng, names, allow_default=(d <= 3 and table['n'] <= 200))
    ops = _ops_for(rng, d, thorough)
    if rng.random() < 0.35:
        # another live model with the same column names but another dependence is conditioned
        # on the very same values just before the model under test (state shared between
        # objects would leak from one to the other)
        k = rng.randrange(len(ops))
        if ops[k]['op'] == 'sample_cond':
            t3 = dict(table, seed=rng.randrange(2**31),
                      pattern=rng.choice(['neg', 'chain', 'star', 'random']))
            ops.insert(k, {'op': 'bystander', 'table': t3, 'like': dict(ops[k]),
                           'state': rng.randrange(2**31)})
    if rng.random() < 0.3:
        # history: the same object is fitted again on another table with the same columns and
        # then conditioned on a set it was already conditioned on before the refit
        t2 = dict(table, seed=rng.randrange(2**31),
                  pattern=rng.choice(['random', 'neg', 'chain', 'star']))
        first = [o for o in ops if o['op'] == 'sample_cond'][0]
        first = dict(first)
        ops.append({'op': 'refit', 'table': t2, 'state': rng.randrange(2**31)})
        ops.append(dict(first, n=rng.choice([8, 50]), reuse=False))
    return {'table': table, 'config': config, 'seed': zoo.rand_seedspec(rng),
            'fit_state': rng.randrange(2**31), 'g0': rng.randrange(2**31), 'ops': ops}


def fixed_runs(tier):
    """All non-empty proper subsets for d = 2..4 (5 in thorough) on one model per d."""
    runs = []
    for d in range(2, 6 if tier == 'thorough' else 5):
        margs = ['normal', 'gamma', 'beta', 'uniform', 'bimodal'][:d]
        ops = []
        for size in range(1, d):
            for subset in itertools.combinations(range(d), size):
                ops.append({'op': 'sample_cond', 'cols': list(subset),
                            'kinds': ['inside'] * size, 'q': [0.3] * size,
                            'container': 'series' if (size + subset[0]) % 2 else 'dict',
                            'order': 'asc', 'n': 8, 'reuse': True})
        runs.append({'table': {'kind': 'table', 'n': 200, 'seed': 40 + d, 'margs': margs,
                               'pattern': 'random', 'names': ['z%d' % (d - i) for i in range(d)]},
                     'config': {'form': 'class',
                                'ctor': {'distribution': {'__cls__': gmvlib.FAM['kde']}}},
                     'seed': {'kind': 'int', 'v': 3}, 'fit_state': 2, 'g0': 5, 'ops': ops})
    return runs


def simplify(run):
    for i, op in enumerate(run['ops']):
        if op['op'] != 'sample_cond':
            continue
        if op['n'] > 8:
            cand = copy.deepcopy(run)
            cand['ops'][i]['n'] = 8
            yield cand
        if len(op['cols']) > 1:
            cand = copy.deepcopy(run)
            cand['ops'][i]['cols'] = op['cols'][:1]
            cand['ops'][i]['kinds'] = op['kinds'][:1]
            cand['ops'][i]['q'] = op['q'][:1]
            yield cand
        if op['container'] != 'dict':
            cand = copy.deepcopy(run)
            cand['ops'][i]['container'] = 'dict'
            yield cand
        if any(k != 'inside' for k in op['kinds']):
            cand = copy.deepcopy(run)
            cand['ops'][i]['kinds'] = ['inside'] * len(op['kinds'])
            yield cand
    if run['table']['n'] > 150:
        cand = copy.deepcopy(run)
        cand['table']['n'] = 150
        yield cand


def _value(col, kind, q):
    lo, hi = float(np.min(col)), float(np.max(col))
    span = (hi - lo) or 1.0
    if kind == 'inside':
        return float(np.quantile(col, 0.05 + 0.9 * q))
    if kind == 'min':
        return lo
    if kind == 'max':
        return hi
    if kind == 'mean':
        return float(np.mean(col))
    if kind == 'far_low':
        return lo - 50.0 * span - 7.0
    return hi + 50.0 * span + 7.0


def _container(op, names, values):
    pairs = list(zip(names, values))
    if op['order'] == 'desc':
        pairs = pairs[::-1]
    elif op['order'] == 'perm':
        import random as _random
        _random.Random(op.get('perm_seed', 0)).shuffle(pairs)     # any order, incl. 3-cycles
    if op['container'] in ('series_int', 'dict_int'):
        pairs = [(k, int(round(v))) for k, v in pairs]     # integer-valued conditions
    if op['container'] in ('dict', 'dict_int'):
        return dict(pairs)
    ser = pd.Series([v for _, v in pairs], index=[k for k, _ in pairs])
    return ser.astype('int64') if op['container'] == 'series_int' else ser


def _find_perms(mean, cov, ref_mean, ref_cov, free_names, zcols):
    """All permutations p with mean[p] ~ ref_mean and cov[p][:,p] ~ ref_cov (label order
    first).  More than one exists when free columns are duplicates of each other."""
    k = len(ref_mean)
    cands = []
    if zcols is not None and sorted(map(str, zcols)) == sorted(map(str, free_names)):
        cands.append([list(zcols).index(nm) for nm in free_names])
    cands.append(list(range(k)))
    if k <= 5:
        cands.extend(list(p) for p in itertools.permutations(range(k)))
    out = []
    for p in cands:
        if p not in out and np.allclose(mean[p], ref_mean, rtol=1e-6, atol=1e-6) and \
                np.allclose(cov[np.ix_(p, p)], ref_cov, rtol=1e-6, atol=1e-6):
            out.append(p)
    return out


def _check_cond(ctx, run, model, train_df, op, recognised):
    d = len(model.columns)
    cols = [c for c in op['cols'] if c < d]
    if not cols or len(cols) >= d:
        return 'skipped'
    names = [model.columns[c] for c in cols]
    values = [_value(train_df[nm].to_numpy(), k, q)
              for nm, k, q in zip(names, op['kinds'], op['q'])]
    n = op['n']
    conditions = _container(op, names, values)
    if op['container'] in ('series_int', 'dict_int'):
        values = [float(int(round(v))) for v in values]       # what was actually passed
    fp0 = fingerprint(conditions)
    cond = {'d': d, 'n': n, 'k': len(cols), 'container': op['container'],
            'config': run['config']['form']}
    g_before = np.random.get_state()
    m_before = copy.deepcopy(model.random_state)
    with RngRecorder() as rec:
        out = outcome(model.sample, n, conditions=conditions)
    ctx.stats['sample_calls'] += 1
    ctx.stats['draw_calls_recorded'] += len(rec.calls)
    if op['container'].startswith('series'):
        ctx.probes['series_container'] += 1
    if op['container'].endswith('_int'):
        ctx.probes['integer_typed_conditions'] += 1
    # (c) conditions object untouched
    if fingerprint(conditions) != fp0:
        ctx.violate('c_conditions_unmodified', SUBJECT,
                    'the caller\'s conditions %s changed across the call' % op['container'],
                    **cond)
    if out[0] != 'ok':
        ctx.violate('a_schema', SUBJECT, 'sample(%d, conditions=<%s>) raised %s: %s'
                    % (n, op['container'], outcome_class(out), str(out[1])[:150]),
                    clause='raised', exc=outcome_class(out), **cond)
        return 'raised'
    S = out[1]
    if not isinstance(S, pd.DataFrame) or len(S) != n or list(S.columns) != list(train_df.columns):
        ctx.violate('a_schema', SUBJECT, 'want %d rows x columns %r, got %r x %r'
                    % (n, list(train_df.columns), len(S), list(getattr(S, 'columns', []))),
                    clause='shape', **cond)
        return 'badshape'
    for nm, v in zip(names, values):
        if not np.all(S[nm].to_numpy() == v):
            ctx.violate('a_conditioned_columns_fixed', SUBJECT,
                        'column %r should be %r in every row, got %r'
                        % (nm, v, S[nm].to_numpy()[:3].tolist()), **cond)
    # reference conditional law
    R = model.correlation.to_numpy()
    idx_given = cols
    idx_free = [j for j in range(d) if j not in cols]
    free_names = [model.columns[j] for j in idx_free]
    z = []
    for j, v in zip(idx_given, values):
        u = float(np.asarray(model.univariates[j].cdf(np.array([v]))).ravel()[0])
        uc = min(max(u, EPS32), 1 - EPS32)
        if uc != u:
            ctx.probes['clipped_normal_score'] += 1
        z.append(stats.norm.ppf(uc))
        if gmvlib.is_constant_uni(model.univariates[j]):
            ctx.probes['conditioned_on_constant_column'] += 1
    if len(idx_free) == 1:
        ctx.probes['exactly_one_free_column'] += 1
    if len(idx_given) == 1:
        ctx.probes['exactly_one_conditioning_column'] += 1
    ref_ok = True
    try:
        ref_mean, ref_cov = refs.conditional_normal(R, idx_free, idx_given, z)
        S22 = R[np.ix_(idx_given, idx_given)]
        W2 = R[np.ix_(idx_free, idx_given)] @ np.linalg.inv(S22)
        alt_mean = W2 @ np.asarray(z)
        alt_cov = R[np.ix_(idx_free, idx_free)] - W2 @ R[np.ix_(idx_given, idx_free)]
        if not (np.allclose(alt_mean, ref_mean, rtol=1e-7, atol=1e-7)
                and np.allclose(alt_cov, ref_cov, rtol=1e-7, atol=1e-7)):
            # two numerical routes to the reference (solve / explicit inverse) disagree: S22
            # is numerically singular (duplicated columns both conditioned on), S22^-1 is not
            # defined to any useful precision, neither here nor in the library
            ref_ok = False
            ctx.probes['reference_illconditioned_law_not_compared'] += 1
    except np.linalg.LinAlgError:
        ref_ok = False
        ctx.probes['reference_singular'] += 1
    proto = 'unrecognised'
    calls = rec.calls
    if ref_ok and len(calls) == 1 and calls[0]['name'] == 'multivariate_normal' \
            and isinstance(calls[0]['result'], np.ndarray) \
            and calls[0]['result'].shape == (n, len(idx_free)) and len(calls[0]['args']) >= 2:
        Z = calls[0]['result']
        mean_arg, cov_arg = calls[0]['args'][0], calls[0]['args'][1]
        zcols = None
        for a in (mean_arg, cov_arg):
            lab = getattr(a, 'index', None)
            if lab is not None and len(lab) == len(idx_free):
                zcols = list(lab)
                break
        mean = np.asarray(mean_arg, dtype=float)
        cov = np.asarray(cov_arg, dtype=float)
        if mean.shape == (len(idx_free),) and cov.shape == (len(idx_free),) * 2:
            # recognition: free output columns are monotone in some column of the draw
            perms = _find_perms(mean, cov, ref_mean, ref_cov, free_names, zcols)
            perm = perms[0] if perms else None
            if n >= 8:
                p_try = perm
                if p_try is None and zcols is not None and \
                        sorted(map(str, zcols)) == sorted(map(str, free_names)):
                    p_try = [list(zcols).index(nm) for nm in free_names]
                if p_try is None:
                    p_try = list(range(len(idx_free)))
                mono = all(
                    gmvlib.is_constant_uni(model.univariates[j])
                    or len(np.unique(S[model.columns[j]].to_numpy())) == 1
                    or gmvlib.monotone_in(S[model.columns[j]].to_numpy(), Z[:, p_try[i]])
                    for i, j in enumerate(idx_free))
                if mono:
                    recognised[0] = True
                    proto = 'one_conditional_mvn_draw'
            elif recognised[0]:
                proto = 'one_conditional_mvn_draw'
            if proto != 'unrecognised':
                if perm is None:
                    ctx.violate('b_conditional_law_of_recorded_draw', SUBJECT,
                                'draw mean %s cov diag %s; reference mean %s cov diag %s '
                                '(given %r = %s)'
                                % (np.round(mean, 6).tolist(), np.round(np.diag(cov), 6).tolist(),
                                   np.round(ref_mean, 6).tolist(),
                                   np.round(np.diag(ref_cov), 6).tolist(), names,
                                   np.round(z, 4).tolist()), **cond)
                else:
                    if not np.allclose(cov, cov.T, atol=1e-9):
                        ctx.violate('b_conditional_covariance_symmetric', SUBJECT,
                                    'max asymmetry %.3g' % float(np.max(np.abs(cov - cov.T))),
                                    **cond)
                    # positive semi-definite up to the numerical noise accepted everywhere
                    # else in this oracle (1e-6): numpy's own warning uses 1e-8, which a Schur
                    # complement over an ill-conditioned S22 (two nearly dependent conditioning
                    # columns) misses by rounding alone
                    lam_min = float(np.linalg.eigvalsh((cov + cov.T) / 2.0).min())
                    if rec.psd_warnings:
                        ctx.probes['numpy_psd_warning'] += 1
                    if lam_min < -1e-6:
                        ctx.violate('b_conditional_covariance_psd', SUBJECT,
                                    'smallest eigenvalue of the covariance passed to the draw '
                                    'is %.3g' % lam_min,
                                    pattern=run['table'].get('pattern'), **cond)
                    # duplicated free columns make the permutation ambiguous: the output
                    # must be the transform of the draw under at least one admissible one
                    first = None
                    for p in perms:
                        probs = gmvlib.refine_columns(model, S, Z[:, p], free_names,
                                                      skip=set(names))
                        if not probs:
                            first = None
                            break
                        first = first or probs[0]
                    if first is not None:
                        name, i, got, ref = first
                        ctx.violate('b_free_column_is_marginal_inverse_of_draw', SUBJECT,
                                    'column %r row %d: sampled %r, percent_point(Phi(z)) = %r'
                                    % (name, i, got, ref), **cond)
                    ctx.stats['rows_refined_exactly'] += n
    if proto == 'unrecognised' and ref_ok and len(calls) == 1 and calls[0]['name'] == 'normal' \
            and len(idx_free) == 1:
        # protocol class 2: one free column drawn with normal(loc, scale[, size])
        a_ = list(calls[0]['args'])
        kw_ = calls[0]['kwargs']
        loc = kw_.get('loc', a_[0] if len(a_) > 0 else 0.0)
        scale = kw_.get('scale', a_[1] if len(a_) > 1 else 1.0)
        try:
            loc = float(np.ravel(loc)[0])
            scale = float(np.ravel(scale)[0])
            proto = 'one_conditional_normal_draw'
        except Exception:
            proto = 'unrecognised'
        if proto != 'unrecognised':
            want_sd = math.sqrt(max(float(ref_cov[0, 0]), 0.0))
            if not (np.isclose(loc, ref_mean[0], rtol=1e-6, atol=1e-6)
                    and np.isclose(scale, want_sd, rtol=1e-6, atol=1e-6)):
                ctx.violate('b_conditional_law_of_recorded_draw', SUBJECT,
                            'single free column drawn with normal(loc=%.6f, scale=%.6f); reference '
                            'conditional mean %.6f and standard deviation %.6f'
                            % (loc, scale, float(ref_mean[0]), want_sd), **cond)
    if proto == 'unrecognised':
        ctx.probes['protocol_unrecognised'] += 1
    # (c) re-use of the same container under the same pinned states -> same frame
    if op.get('reuse'):
        ctx.probes['container_reused'] += 1
        m_after = copy.deepcopy(model.random_state)
        model.random_state = copy.deepcopy(m_before)
        with with_global_state(g_before):
            out2 = outcome(model.sample, n, conditions=conditions)
        model.random_state = m_after
        if out2[0] != 'ok' or not same(out2[1], S):
            ctx.violate('c_second_call_with_same_conditions_object', SUBJECT,
                        'second call with the same conditions object under the same random '
                        'state: %s' % ('raised ' + outcome_class(out2) if out2[0] != 'ok'
                                       else 'different frame'), **cond)
        if fingerprint(conditions) != fp0:
            ctx.violate('c_conditions_unmodified', SUBJECT,
                        'conditions changed across the second call', **cond)
    # (d) distribution-free fallback
    if n >= 2000 and ref_ok:
        ctx.stats['band_checks'] += 1
        k = len(idx_free)
        alpha = 1e-9 / (4.0 * (k + k * (k - 1) // 2))
        eps = refs.dkw_eps(n, alpha)
        et = refs.hoeffding_tau_eps(n, alpha)
        usable = []
        for i, j in enumerate(idx_free):
            uni = model.univariates[j]
            var = float(ref_cov[i, i])
            if gmvlib.is_constant_uni(uni) or var < 1e-4:
                continue
            if not gmvlib.marginal_consistent(uni):
                ctx.probes['band_skipped_marginal_not_self_consistent'] += 1
                continue
            if abs(ref_mean[i]) + 4.0 * math.sqrt(var) > 4.5:
                # conditional mass sits where cdf values are clipped to [eps, 1-eps]
                ctx.probes['band_skipped_conditional_mass_in_clipped_tail'] += 1
                continue
            x = S[model.columns[j]].to_numpy()
            u = np.clip(np.asarray(uni.cdf(x), dtype=float), EPS32, 1 - EPS32)
            if len(np.unique(u)) < n // 2:
                continue        # marginal not continuous enough for a score test
            usable.append(i)
            score = (stats.norm.ppf(u) - ref_mean[i]) / math.sqrt(var)
            ks = refs.ks_distance(stats.norm.cdf(score), lambda t: np.clip(t, 0, 1))
            if ks > eps:
                ctx.violate('d_conditional_marginal_dkw', SUBJECT,
                            'free column %r: standardised normal scores are not N(0,1) '
                            '(KS %.4f > %.4f)' % (model.columns[j], ks, eps), **cond)
        for a in usable:
            for b in usable:
                if a < b:
                    rho = ref_cov[a, b] / math.sqrt(ref_cov[a, a] * ref_cov[b, b])
                    want = 2 / math.pi * math.asin(float(np.clip(rho, -1, 1)))
                    got = refs.kendall_tau(S[free_names[a]].to_numpy(), S[free_names[b]].to_numpy())
                    if abs(got - want) > et:
                        ctx.violate('d_conditional_pair_tau_hoeffding', SUBJECT,
                                    'free columns (%r,%r): tau %.4f vs implied %.4f, band %.4f'
                                    % (free_names[a], free_names[b], got, want, et), **cond)
    vk = ','.join(sorted(set(op['kinds'])))
    st = '|'.join([str(d), str(len(cols)), op['container'], vk, proto])
    ctx.states.add(st)
    ctx.shape.append(st)
    return proto


def execute(run):
    ctx = Ctx(run)
    np.random.seed(run['g0'] % (2**32))
    model, train_df, R_true, fit_out = gmvlib.build_fitted(run)
    if fit_out[0] != 'ok':
        ctx.probes['fit_raised:' + outcome_class(fit_out)] += 1
        ctx.event('fit', outcome_class(fit_out))
        return ctx.result()
    ctx.event('fit', 'ok', model.correlation.to_numpy())
    if np.linalg.cond(model.correlation.to_numpy()) > 1e6:
        ctx.probes['near_singular_correlation'] += 1
    recognised = [False]
    # recognition probe, out of band: condition a copy on column 0 at its median, 16 rows
    from copsim.seams import sterile
    with sterile(run['g0'] + 23):
        _check_cond(Ctx(run), run, copy.deepcopy(model), train_df,
                    {'cols': [0], 'kinds': ['inside'], 'q': [0.5], 'container': 'dict',
                     'order': 'asc', 'n': 16, 'reuse': False}, recognised)
    for i, op in enumerate(run['ops']):
        ctx.op_index = i
        ctx.stats['ops'] += 1
        if op['op'] == 'app_draw':
            np.random.random(op['k'])
            ctx.faults['F5_foreign_draws'] += 1
        elif op['op'] == 'bystander':
            from copulas.multivariate import GaussianMultivariate
            df3, _r3 = zoo.gen_table(op['table'])
            like = op['like']
            cols3 = [c for c in like['cols'] if c < df3.shape[1]]
            if cols3 and len(cols3) < df3.shape[1]:
                names3 = [model.columns[c] for c in cols3]
                # the SAME condition values the model under test is about to receive
                vals3 = [_value(train_df[nm].to_numpy(), k_, q_)
                         for nm, k_, q_ in zip(names3, like['kinds'], like['q'])]
                other = GaussianMultivariate(
                    **gmvlib.fix_dict_keys(run['config']['ctor'], list(df3.columns), n_rows=len(df3)))
                with sterile(op['state']):
                    o = outcome(other.fit, df3)
                    if o[0] == 'ok':
                        outcome(other.sample, 3, conditions=_container(like, names3, vals3))
                        outcome(other.sample, 3)
                ctx.probes['bystander_model_conditioned_on_same_values'] += 1
                ctx.event('bystander', outcome_class(o))
        elif op['op'] == 'refit':
            df2, _r2 = zoo.gen_table(op['table'])
            with sterile(op['state']):
                o = outcome(model.fit, df2)
            ctx.probes['refit_same_object'] += 1
            ctx.event('refit', outcome_class(o))
            if o[0] != 'ok':
                break
            train_df = df2
        elif op['op'] == 'sample_cond':
            proto = _check_cond(ctx, run, model, train_df, op, recognised)
            if proto != 'skipped':
                ctx.nontrivial = True
            ctx.event('sample_cond', op['cols'], op['n'], proto, state_digest())
    return ctx.result()
