"""C14 - Serialisation round-trips preserve every model's observable behaviour.

Histories of serialisation hops (dict, generic dispatch, JSON, save/load) on a simulated
in-memory filesystem with injected I/O errors; after every hop the current copy is compared
with the ORIGINAL by behavioural twin equality (class, to_dict, every query on a probe grid,
and the sample stream under the same random state)."""

import copy
import json

import numpy as np

from copsim import obs, zoo
from copsim.core import Ctx, outcome, outcome_class
from copsim.seams import Poison, SimFS, sterile

PROPERTY = 'C14'
LEVEL = 'exploration'
TIERS = {
    'quick': {'runs': 2400, 'wall': 150, 'batch': 12},
    'thorough': {'runs': 40000, 'wall': 840, 'batch': 6},
}
RULE = ('Each run = 1-3 models (every public model class with constructor options: KDE '
        'bw_method/sample_size/weights, truncation bounds, wrapper candidates/filters, three '
        'bivariate families incl. edge parameters, Gaussian multivariate with constant columns, '
        'three vine types and truncations; fitted or left unfitted) and a history of 1-6 '
        'operations: a serialisation hop (own from_dict, generic from_dict, JSON, save/load on '
        'the simulated filesystem at one of two paths, so overwrites happen), with I/O errors '
        'injected at open / j-th write / close followed by a retry, torn files shown to load, '
        'and foreign draws on the global generator between hops. The process-global class '
        'caches are reset before every run, so which factory call comes first is part of the '
        'history. Non-trivial = at least one hop completed and compared; distinct = distinct '
        '(class, options, hop-kind sequence, outcomes) shapes.')
STATE_MEASURE = 'distinct (class, options, hop kinds sequence)'
STUBS = ['in-memory filesystem behind a module-global open() in the three copulas base modules',
         'I/O faults ENOSPC / EIO / EACCES at open, j-th write, close',
         'allocator content pinned for vine code']
ASSUMPTIONS = [
    'a bug shared by the original and the copy (wrong maths) is invisible',
    'pickle and json of the standard library are trusted',
    'what a path holds after a failed overwrite, and what load does with a torn file, are '
    'logged, not gated (the property does not speak about crashes)',
]
SHRINK_LISTS = ('ops', 'population')
PATHS = ['/sim/a.bin', '/sim/b.bin']
UNI = 'copulas.univariate.'


def _model_spec(rng, mid):
    r = rng.random()
    spec = {'id': mid, 'ctor': {}, 'fit_state': rng.randrange(2**31),
            'fitted': rng.random() < 0.88}
    if r < 0.38:
        cls = rng.choice(zoo.UNI_FAMILIES)
        spec['cls'] = cls
        spec['data'] = zoo.rand_uni_dataspec(rng, 20, 80)
        if rng.random() < 0.12 and spec['data']['gen'] in ('normal', 'uniform'):
            # non-constant data with a tiny spread (seconds with nanosecond jitter)
            spec['data']['scale'] = rng.choice([1e-9, 3e-10])
            spec['data']['loc'] = rng.choice([0.0, 12.5])
        if cls.endswith('GaussianKDE'):
            o = rng.random()
            if o < 0.25:
                spec['ctor']['bw_method'] = rng.choice(['scott', 'silverman'])
            elif o < 0.4:
                spec['ctor']['bw_method'] = 0.5
            elif o < 0.55:
                spec['ctor']['sample_size'] = rng.choice([10, 30])
            elif o < 0.65:
                spec['ctor']['weights'] = rng.choice(['ramp', 'ramp_int', 'ramp_int_list'])
            elif o < 0.9:
                # option combinations (R9-C14-A: a restore path that handles each option alone
                # but drops one of two given together)
                # (weights together with sample_size is not a configuration the library supports:
                # fit raises, the weights belong to the rows that were subsampled away)
                combo = rng.choice([('bw_method', 'weights'), ('bw_method', 'sample_size'),
                                    ('bw_method', 'weights')])
                if 'bw_method' in combo:
                    spec['ctor']['bw_method'] = rng.choice([0.5, 0.3, 'silverman'])
                if 'weights' in combo:
                    spec['ctor']['weights'] = rng.choice(['ramp', 'ramp_int', 'ramp_int_list'])
                if 'sample_size' in combo:
                    spec['ctor']['sample_size'] = rng.choice([10, 30])
        if cls.endswith('TruncatedGaussian') and rng.random() < 0.5:
            spec['ctor'] = {'minimum': -60.0, 'maximum': 90.0}
    elif r < 0.5:
        spec['cls'] = zoo.UNI_WRAPPER
        spec['data'] = zoo.rand_uni_dataspec(rng, 20, 80)
        r_ = rng.random()
        if r_ < 0.2:
            # configured instances as candidates (options must survive the round trip)
            spec['ctor']['candidates'] = [
                {'__inst__': zoo.UNI_FAMILIES[3], 'ctor': {'bw_method': rng.choice([0.3, 'silverman'])}},
                {'__inst__': zoo.UNI_FAMILIES[6], 'ctor': {'minimum': -80.0, 'maximum': 120.0}}]
            if rng.random() < 0.5:
                spec['ctor']['candidates'] = spec['ctor']['candidates'][:1]
        elif r_ < 0.75:
            spec['ctor']['candidates'] = [{'__cls__': c} for c in rng.sample(
                zoo.FAST_UNI + [zoo.UNI_FAMILIES[6], zoo.UNI_FAMILIES[2]], rng.randint(1, 3))]
        else:
            spec['ctor']['bounded'] = {'__enum__': [UNI + 'base', 'BoundedType', 'BOUNDED']}
    elif r < 0.68:
        spec['cls'] = rng.choice(zoo.BIV_FAMILIES)
        tau = rng.choice([0.1, 0.3, 0.6, 0.8])
        if spec['cls'].endswith('Frank') and rng.random() < 0.4:
            tau = -tau
        spec['data'] = {'kind': 'pobs', 'n': rng.randint(30, 80), 'tau': tau,
                        'seed': rng.randrange(2**31)}
        if rng.random() < 0.12:
            spec['edge_param'] = True          # tau = 1 -> theta = inf for Clayton
    elif r < 0.84:
        spec['cls'] = zoo.GAUSSIAN_MV
        spec['data'] = zoo.rand_table_spec(rng, 2, 4, 30, 60, constant_p=0.2)
        if rng.random() < 0.12:
            spec['data']['affine'] = [rng.choice([[0.0, 1.0], [12.5, 1e-9], [0.0, 3e-10]])
                                      for _ in spec['data']['margs']]
        o = rng.random()
        if o < 0.5:
            spec['ctor']['distribution'] = {'__cls__': rng.choice(zoo.FAST_UNI)}
        elif o < 0.75:
            spec['ctor']['distribution'] = {'__map__': {
                'c0': zoo.UNI_FAMILIES[6], 'c1': {'__cls__': zoo.FAST_UNI[2]},
                'c2': zoo.UNI_FAMILIES[1], 'c3': zoo.FAST_UNI[1]}}
        elif o < 0.9:
            spec['ctor']['distribution'] = {'__inst__': zoo.UNI_WRAPPER, 'ctor': {
                'candidates': [{'__cls__': zoo.FAST_UNI[0]}, {'__cls__': zoo.FAST_UNI[2]}]}}
        else:
            # nested model with a non-default kernel option (scalar bandwidth)
            spec['ctor']['distribution'] = {'__inst__': zoo.UNI_FAMILIES[3],
                                            'ctor': {'bw_method': 0.5}}
        if '__map__' not in str(spec['ctor']) and rng.random() < 0.5:
            # column names whose sorted order is not the training order
            d = len(spec['data']['margs'])
            spec['data']['names'] = ['z%d' % (d - i) for i in range(d)]
    else:
        spec['cls'] = zoo.VINE
        spec['ctor']['vine_type'] = rng.choice(zoo.VINE_TYPES)
        spec['data'] = zoo.rand_table_spec(rng, 2, 5, 40, 60, constant_p=0.0,
                                           margs=['normal', 'gamma', 'beta', 'uniform'],
                                           patterns=('random', 'chain', 'star', 'weak'))
        spec['truncated'] = rng.randint(1, 4)
        spec['poison'] = rng.choice(['zero', 'nan', 'noise'])
        if rng.random() < 0.3:
            # the documented ``model`` attribute: marginals of another family than the default
            spec['vine_model'] = rng.choice([zoo.UNI_FAMILIES[0], zoo.UNI_FAMILIES[6]])
        if rng.random() < 0.5:
            d = len(spec['data']['margs'])
            spec['data']['names'] = ['z%d' % (d - i) for i in range(d)]
    return spec


def _vias(kind):
    v = ['dict_own', 'dict_generic', 'file']
    if kind in ('uni', 'biv', 'gmv'):
        v.append('json')
    if kind == 'uni':
        # the inherited from_dict reached through ANOTHER family's class: it dispatches on the
        # recorded type all the same (this is how a vine rebuilds its marginals)
        v.append('dict_sibling')
    return v


def generate(rng, tier, idx):
    pop = [_model_spec(rng, 'm%d' % i) for i in range(rng.choice([1, 1, 2, 3]))]
    kinds = {p['id']: zoo.kind_of(p['cls']) for p in pop}
    ops = []
    fault_rate = rng.choice([0.0, 0.0, 0.25, 0.5])
    for _ in range(rng.randint(1, 6)):
        m = rng.choice(pop)['id']
        if rng.random() < 0.15:
            ops.append({'op': 'app_draw', 'k': rng.randint(1, 40)})
        via = rng.choice(_vias(kinds[m]))
        op = {'op': 'hop', 'm': m, 'via': via}
        if via == 'dict_sibling':
            op['sibling'] = rng.randrange(7)
        if via == 'file':
            op['path'] = rng.choice(PATHS)
            if rng.random() < fault_rate:
                op['fault'] = {'where': rng.choice(['open', 'write', 'write', 'close']),
                               'count': rng.choice([0, 0, 1, 3])}
            elif rng.random() < 0.08:
                op['torn'] = round(rng.uniform(0.1, 0.9), 2)
        ops.append(op)
        if rng.random() < 0.2:
            # the ORIGINAL object is put to other use (refitted on other data, reseeded,
            # sampled); a copy made earlier must go on behaving as the original did then
            ops.append({'op': rng.choice(['disturb_original', 'disturb_copy']), 'm': m,
                        'state': rng.randrange(2**31)})
    for k, p_ in enumerate(pop):
        if kinds[p_['id']] == 'vine' and (idx + k) % 2 == 0:
            # the trees of a vine are models with a recorded type of their own: the generic
            # entry point dispatches on it like on any other
            ops.append({'op': 'tree_dispatch', 'm': p_['id'], 'k': (idx // 2) % 3})
    return {'population': pop, 'ops': ops, 'g0': rng.randrange(2**31)}


def _tree_dispatch(ctx, rec, op):
    from copulas.multivariate import Multivariate
    model = rec['cur']
    trees = getattr(model, 'trees', None) or []
    if not rec['fitted'] or not trees:
        return
    tree = trees[op['k'] % len(trees)]
    d = outcome(tree.to_dict)
    if d[0] != 'ok':
        return
    ctx.probes['tree_generic_dispatch'] += 1
    r = outcome(Multivariate.from_dict, copy.deepcopy(d[1]))
    subject = 'copulas.multivariate.base.Multivariate.from_dict'
    cond = {'cls': type(tree).__name__, 'via': 'dict_generic', 'fitted': True}
    if r[0] != 'ok':
        ctx.violate('roundtrip_completes', subject,
                    'generic from_dict of a %s dict raised %s: %s'
                    % (type(tree).__name__, outcome_class(r), str(r[1])[:120]), **cond)
        return
    if type(r[1]) is not type(tree):
        ctx.violate('same_family', subject, 'recorded %s, got %s'
                    % (type(tree).__name__, type(r[1]).__name__), **cond)
        return
    back = outcome(r[1].to_dict)
    from copsim.core import same
    if back[0] != 'ok' or not same(back[1], d[1]):
        ctx.violate('to_dict_equal', subject,
                    'to_dict() of the rebuilt tree differs from the dict it was built from',
                    **cond)


def fixed_runs(tier):
    """Which factory entry point is called first in a process matters (S5b): one run per
    bivariate family whose very first operation is the family's own from_dict; one per
    multivariate class through the generic dispatcher; unfitted hops of every kind."""
    runs = []
    for cls in zoo.BIV_FAMILIES:
        for via in ('dict_own', 'json', 'file', 'dict_generic'):
            runs.append({'population': [{'id': 'm0', 'cls': cls, 'ctor': {}, 'fit_state': 1,
                                         'fitted': True,
                                         'data': {'kind': 'pobs', 'n': 50, 'tau': 0.4, 'seed': 2}}],
                         'ops': [{'op': 'hop', 'm': 'm0', 'via': via, 'path': PATHS[0]}],
                         'g0': 3})
    for vt in zoo.VINE_TYPES:
        for via in ('dict_generic', 'dict_own', 'file'):
            runs.append({'population': [{'id': 'm0', 'cls': zoo.VINE, 'ctor': {'vine_type': vt},
                                         'fit_state': 1, 'fitted': True, 'truncated': 3,
                                         'data': {'kind': 'table', 'n': 50, 'seed': 4,
                                                  'margs': ['normal', 'gamma', 'beta', 'uniform'],
                                                  'pattern': 'chain'}}],
                         'ops': [{'op': 'hop', 'm': 'm0', 'via': via, 'path': PATHS[0]}],
                         'g0': 3})
    for cls in [zoo.UNI_FAMILIES[0], zoo.UNI_FAMILIES[3], zoo.UNI_WRAPPER, zoo.BIV_FAMILIES[1],
                zoo.GAUSSIAN_MV, zoo.VINE]:
        ctor = {'vine_type': 'regular'} if cls == zoo.VINE else {}
        kind = zoo.kind_of(cls)
        for via in ('file', 'dict_own'):
            runs.append({'population': [{'id': 'm0', 'cls': cls, 'ctor': ctor, 'fit_state': 1,
                                         'fitted': False, 'data': None}],
                         'ops': [{'op': 'hop', 'm': 'm0', 'via': via, 'path': PATHS[1]}],
                         'g0': 3, 'kind': kind})
    return runs


def simplify(run):
    for i, op in enumerate(run['ops']):
        if op.get('fault'):
            cand = copy.deepcopy(run)
            del cand['ops'][i]['fault']
            yield cand
    for i, spec in enumerate(run['population']):
        d = spec.get('data')
        if d and d.get('kind') == 'table' and len(d['margs']) > 2:
            cand = copy.deepcopy(run)
            cand['population'][i]['data']['margs'] = d['margs'][:-1]
            yield cand
        if spec.get('ctor') and spec['cls'] != zoo.VINE:
            cand = copy.deepcopy(run)
            cand['population'][i]['ctor'] = {}
            yield cand


# ----------------------------------------------------------------------------
# execution
# ----------------------------------------------------------------------------

def _build(spec):
    ctor = dict(spec.get('ctor') or {})
    n = (spec.get('data') or {}).get('n', 0)
    if ctor.get('weights') == 'ramp':
        ctor['weights'] = {'__nd__': [1.0 + (i % 5) for i in range(n)]}
    elif ctor.get('weights') == 'ramp_int':
        ctor['weights'] = {'__ndint__': [1 + (i % 5) for i in range(n)]}   # observation counts
    elif ctor.get('weights') == 'ramp_int_list':
        ctor['weights'] = [1 + (i % 5) for i in range(n)]
    sp = dict(spec, ctor=ctor)
    model = zoo.build_model(sp, seed=False)
    data = None
    out = ('ok', None)
    if spec.get('fitted') and spec.get('data'):
        data = zoo.gen_data(spec['data'])
        with sterile(spec['fit_state']):
            out = outcome(zoo.fit_model, model, sp, data)
        if out[0] == 'ok' and spec.get('edge_param') and spec['cls'].endswith('Clayton'):
            model.tau = 1.0
            model.theta = float('inf')
    return model, data, out


def _generic_from_dict(kind):
    from copulas.bivariate import Bivariate
    from copulas.multivariate import Multivariate
    from copulas.univariate import Univariate
    return {'uni': Univariate, 'biv': Bivariate, 'gmv': Multivariate,
            'vine': Multivariate}[kind].from_dict


def _expected_class(orig):
    if type(orig).__name__ == 'Univariate' and getattr(orig, '_instance', None) is not None:
        return type(orig._instance)
    return type(orig)


def _hop(model, kind, op, fs, ctx):
    """Perform one hop on ``model``; returns ('ok', copy) / ('exc', e) / ('skip', why)."""
    via = op['via']
    if via in ('dict_own', 'dict_generic', 'json', 'dict_sibling'):
        d = outcome(model.to_dict)
        if d[0] != 'ok':
            return ('skip', 'to_dict:' + outcome_class(d))
        payload = d[1]
        if via == 'json':
            ctx.probes['json_hop'] += 1
            j = outcome(lambda: json.loads(json.dumps(payload)))
            if j[0] != 'ok':
                return ('exc', j[1], 'json')
            payload = j[1]
        if via == 'dict_generic':
            ctx.probes['generic_dispatch_hop'] += 1
            fn = _generic_from_dict(kind)
        elif via == 'dict_sibling':
            ctx.probes['sibling_class_dispatch_hop'] += 1
            others = [c for c in zoo.UNI_FAMILIES if zoo.short(c) != type(model).__name__]
            fn = zoo.load_class(others[op.get('sibling', 0) % len(others)]).from_dict
        else:
            fn = type(model).from_dict
        r = outcome(fn, payload)
        return r if r[0] == 'ok' else ('exc', r[1], 'from_dict')
    # file
    path = op['path']
    occupied = path in fs.files and len(fs.files[path]) > 0
    if occupied:
        ctx.probes['overwrite_of_occupied_path'] += 1
    if op.get('fault'):
        fs.arm(op['fault']['where'], op['fault']['count'])
    s = outcome(model.save, path)
    fired = list(fs.fired)
    fs.fired.clear()
    fs.disarm()
    if fired:
        ctx.faults['F4_io_error_at_' + fired[0]] += 1
        ctx.probes['failed_save_then_retry'] += 1
        # not gated: did the error propagate, what does the path hold now
        ctx.event('failed_save', fired, outcome_class(s), len(fs.files.get(path, b'')))
        s = outcome(model.save, path)          # retry without faults
    if s[0] != 'ok':
        return ('exc', s[1], 'save')
    if op.get('torn'):
        full = fs.files[path]
        fs.files[path] = full[:max(1, int(len(full) * op['torn']))]
        t = outcome(type(model).load, path)
        ctx.faults['F4_torn_file_shown_to_load'] += 1
        ctx.event('torn_load', outcome_class(t))      # logged, not gated
        fs.files[path] = full
    r = outcome(type(model).load, path)
    return r if r[0] == 'ok' else ('exc', r[1], 'load')


def execute(run):
    ctx = Ctx(run)
    np.random.seed(run['g0'] % (2**32))
    fs = SimFS()
    with fs, Poison('zero'):
        models = {}
        for spec in run['population']:
            kind = zoo.kind_of(spec['cls'])
            model, data, out = _build(spec)
            fitted = spec.get('fitted') and out[0] == 'ok' and spec.get('data') is not None
            rec = {'spec': spec, 'kind': kind, 'orig': model, 'cur': model, 'data': data,
                   'fitted': bool(fitted), 'hops': []}
            if spec.get('fitted') and out[0] != 'ok':
                ctx.probes['population_fit_failed:' + zoo.short(spec['cls'])] += 1
            if fitted:
                rec['obs0'] = obs.observe(model, kind, data)
            models[spec['id']] = rec
            ctx.op_index = -1
            ctx.event('setup', spec['id'], zoo.short(spec['cls']), rec['fitted'])
        for i, op in enumerate(run['ops']):
            ctx.op_index = i
            ctx.stats['ops'] += 1
            if op['op'] == 'app_draw':
                np.random.random(op['k'])
                ctx.faults['F5_foreign_draws'] += 1
                continue
            rec = models.get(op.get('m'))
            if rec is None:
                continue
            if op['op'] == 'disturb_original':
                _disturb_original(ctx, rec, op)
                continue
            if op['op'] == 'disturb_copy':
                _disturb_copy(ctx, rec, op)
                continue
            if op['op'] == 'tree_dispatch':
                _tree_dispatch(ctx, rec, op)
                continue
            kind, spec = rec['kind'], rec['spec']
            cls_short = zoo.short(spec['cls'])
            opts = ','.join(sorted(spec.get('ctor') or {})) or '-'
            if 'vine_type' in (spec.get('ctor') or {}):
                opts = spec['ctor']['vine_type']
            bw = (spec.get('ctor') or {}).get('bw_method')
            cond = {'cls': cls_short, 'via': op['via'], 'opts': opts, 'fitted': rec['fitted'],
                    'hop_index': len(rec['hops']), 'first_op': i == 0,
                    'bw_scalar': isinstance(bw, float),
                    'edge_param': bool(spec.get('edge_param'))}
            subject = spec['cls'] + '.' + {'dict_own': 'from_dict', 'dict_generic': 'from_dict',
                                           'json': 'from_dict', 'file': 'save_load'}.get(op['via'], 'from_dict')
            r = _hop(rec['cur'], kind, op, fs, ctx)
            ctx.stats['hops'] += 1
            rec['hops'].append(op['via'])
            if r[0] == 'skip':
                if not rec['fitted']:
                    ctx.probes['unfitted_model_cannot_be_exported_to_dict'] += 1
                ctx.event('hop', op['m'], op['via'], 'skip', r[1])
                continue
            if r[0] == 'exc':
                ctx.violate('roundtrip_completes', subject,
                            '%s hop failed in %s with %s: %s'
                            % (op['via'], r[2], type(r[1]).__name__, str(r[1])[:140]),
                            stage=r[2], exc=type(r[1]).__name__, **cond)
                ctx.event('hop', op['m'], op['via'], 'exc', type(r[1]).__name__)
                continue
            new = r[1]
            ctx.nontrivial = True
            if op['via'] == 'file' and kind != 'biv':
                want_cls = type(rec['cur'])          # pickle keeps whatever was saved
            else:
                want_cls = _expected_class(rec['cur'])
            if type(new) is not want_cls:
                ctx.violate('same_family', subject, 'round trip of a %s gave a %s, expected %s'
                            % (type(rec['orig']).__name__, type(new).__name__,
                               want_cls.__name__), **cond)
                if type(new) is not type(rec['orig']) and want_cls is not type(rec['orig']):
                    ctx.probes['wrapper_to_family_type_change'] += 1
                try:
                    new_kind = zoo.kind_of(type(new).__module__ + '.' + type(new).__name__)
                except ValueError:
                    new_kind = None
                if new_kind != kind:
                    # not even a model of the same kind (somebody else's file came back):
                    # nothing further can be compared, and it does not replace the copy
                    ctx.event('hop', op['m'], op['via'], 'foreign', type(new).__name__)
                    continue
            elif want_cls is not type(rec['orig']):
                ctx.probes['wrapper_to_family_type_change'] += 1
            if rec['fitted']:
                a = rec['obs0']
                b = obs.observe(new, kind, rec['data'])
                keys = [k for k in obs.diff(a, b) if k not in ('class', 'selected')]
                ctx.stats['twin_comparisons'] += 1
                if keys:
                    ctx.violate('behaviour_preserved', subject,
                                'after %s the copy differs from the original in %s'
                                % ('>'.join(rec['hops']), keys), differs=keys, **cond)
            else:
                ctx.probes['unfitted_hop'] += 1
                d = (rec['data'].shape[1] if rec['data'] is not None and kind in ('gmv', 'vine')
                     else 3)
                bad = []
                for name, thunk in obs.misuse_calls(new, kind, d):
                    with sterile(5):
                        o = outcome(thunk)
                    if o[0] == 'ok':
                        bad.append(name)
                if bad:
                    ctx.violate('unfitted_roundtrips_to_unfitted', subject,
                                'the copy of an unfitted model answers %s' % bad, **cond)
            rec['cur'] = new
            st = '|'.join([cls_short, opts, '>'.join(rec['hops'])])
            ctx.states.add(st)
            ctx.shape.append(st)
            ctx.event('hop', op['m'], op['via'], 'ok')
    return ctx.result()


def _disturb_original(ctx, rec, op):
    """Refit / reseed / sample the original object, then require every copy made from it so
    far (the current one) to behave as before: a copy that shares mutable state with its
    source is not a copy."""
    if not rec['fitted'] or rec['cur'] is rec['orig'] or not rec['hops']:
        return
    kind, spec = rec['kind'], rec['spec']
    d2 = dict(spec['data'])
    d2['seed'] = (d2.get('seed', 1) * 31 + 7) % (2**31)
    if d2.get('kind') == 'uni':
        d2['loc'] = d2.get('loc', 0.0) + 3.0
        d2['gen'] = 'gamma' if d2.get('gen') != 'gamma' else 'normal'
    if d2.get('kind') == 'pobs':
        d2['tau'] = 0.2 if abs(d2.get('tau', 0.5)) > 0.3 else 0.6
    if d2.get('kind') == 'table':
        d2['pattern'] = 'neg' if d2.get('pattern') != 'neg' else 'chain'
    data2 = zoo.gen_data(d2)
    with sterile(op['state']):
        outcome(rec['orig'].set_random_state, 99)
        outcome(lambda: rec['orig'].sample(3))
        outcome(zoo.fit_model, rec['orig'], spec, data2)
    ctx.probes['original_disturbed_after_copy'] += 1
    b = obs.observe(rec['cur'], kind, rec['data'])
    keys = [k for k in obs.diff(rec['obs0'], b) if k not in ('class', 'selected')]
    ctx.stats['twin_comparisons'] += 1
    if keys:
        ctx.violate('copy_independent_of_original', spec['cls'] + '.from_dict',
                    'after the original was refitted the copy made by %s changed in %s'
                    % ('>'.join(rec['hops']), keys), cls=zoo.short(spec['cls']),
                    via=rec['hops'][-1], differs=keys)
    # the original is now another model: later hops start from the current copy only
    rec['orig'] = rec['cur']
    ctx.event('disturb_original', keys)


def _disturb_copy(ctx, rec, op):
    """The symmetric case: the COPY is refitted on other data; the object it was made from must
    go on behaving as before."""
    if not rec['fitted'] or rec['cur'] is rec['orig'] or not rec['hops']:
        return
    kind, spec = rec['kind'], rec['spec']
    if type(rec['cur']) is not type(rec['orig']):
        return                                    # a wrapper became its family: other ctor
    d2 = dict(spec['data'])
    d2['seed'] = (d2.get('seed', 1) * 17 + 3) % (2**31)
    if d2.get('kind') == 'table':
        d2['pattern'] = 'neg' if d2.get('pattern') != 'neg' else 'chain'
    if d2.get('kind') == 'pobs':
        d2['tau'] = 0.2 if abs(d2.get('tau', 0.5)) > 0.3 else 0.6
    if d2.get('kind') == 'uni':
        d2['loc'] = d2.get('loc', 0.0) - 2.0
    data2 = zoo.gen_data(d2)
    with sterile(op['state']):
        o = outcome(zoo.fit_model, rec['cur'], spec, data2)
    ctx.probes['copy_refitted_source_checked'] += 1
    b = obs.observe(rec['orig'], kind, rec['data'])
    keys = [k for k in obs.diff(rec['obs0'], b) if k not in ('class', 'selected')]
    ctx.stats['twin_comparisons'] += 1
    if keys:
        ctx.violate('original_independent_of_copy', spec['cls'] + '.from_dict',
                    'after the copy made by %s was refitted the ORIGINAL changed in %s'
                    % ('>'.join(rec['hops']), keys), cls=zoo.short(spec['cls']),
                    via=rec['hops'][-1], differs=keys)
    # the copy is now another model: continue from the original
    rec['cur'] = rec['orig']
    rec['hops'] = []
    ctx.event('disturb_copy', outcome_class(o), keys)
