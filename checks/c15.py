"""C15 - Sampling is reproducible per model seed and never perturbs the global RNG.

Deterministic simulation: a population of live models and an "application" client share
the one process-global NumPy generator; a seeded scheduler interleaves their operations
and injects exceptions at crash points inside sampler bodies.  Oracles (DESIGN 4/C15):

I1 isolation        seeded model: np.random.get_state() identical before/after the call,
                    whether it returned or raised
I2 stream           k-th output of a seeded model == k-th output of its isolated twin
I3 advance          a seeded call that draws leaves a different stored state behind
I4 global-driven    unseeded model: output and post-call global state equal the twin's run
                    from the same pre-call global state, and the global state is consumed
I5 datasets         exactly `size` rows, deterministic in (size, seed), global state untouched
I6 after a fault    I1 still holds and the next unfaulted call still agrees with a twin that
                    received the same fault
I7 fit              fitting a model that was seeded at construction leaves its stored
                    generator exactly where the seed put it
"""

import copy

import numpy as np

from copsim import zoo
from copsim.core import Ctx, outcome, outcome_class, same, state_digest, states_equal
from copsim.seams import CrashTracer, body_codes_of, sterile, with_global_state

PROPERTY = 'C15'
LEVEL = 'exploration'
TIERS = {
    'quick': {'runs': 2000, 'wall': 150, 'batch': 6},
    'thorough': {'runs': 40000, 'wall': 840, 'batch': 8},
}
RULE = ('Each run = a seeded population of 1-4 fitted models (all sampler classes, seeds as '
        'int/RandomState/shared RandomState/None) plus 4-16 operations interleaving sample, '
        'conditional sample, set_random_state, application draws/reseeds/restores of the '
        'global generator, hidden-consumer cdf queries, dataset generators and injected '
        'exceptions at crash points inside sampler bodies; fixed runs enumerate crash points '
        'of one representative call per sampler class. A run is non-trivial when a seeded '
        'sample executed or a fault fired; distinct = distinct (op, class, seed kind, outcome) '
        'sequences.')
STATE_MEASURE = 'distinct (class, seed kind, op, outcome) tuples and their 2-grams'
STUBS = ['"application" client drawing from the global generator (simulator-owned)',
         'exceptions raised at crash points by a sys.settrace tracer']
ASSUMPTIONS = [
    'twin and live model run the same code: a sampler that is wrong but deterministic is '
    'invisible here (that is C01/C09/C12/C17)',
    'thread-level interleavings inside the state swap are out of scope (property quantifies '
    'over call histories)',
    "scipy's internal draws are observed only through global-state digests",
]
SHRINK_LISTS = ('ops', 'population')

DATASETS = [
    'sample_bivariate_age_income', 'sample_trivariate_xyz', 'sample_univariate_bernoulli',
    'sample_univariate_bimodal', 'sample_univariate_uniform', 'sample_univariate_normal',
    'sample_univariate_degenerate', 'sample_univariate_exponential', 'sample_univariate_beta',
    'sample_univariates',
]
FAULT_KINDS = ['ValueError', 'MemoryError', 'KeyboardInterrupt']


# ----------------------------------------------------------------------------
# generation
# ----------------------------------------------------------------------------

def _model_spec(rng, mid, tier, force_cls=None):
    r = rng.random()
    if force_cls:
        cls = force_cls
    elif r < 0.34:
        cls = rng.choice(zoo.UNI_FAMILIES)
    elif r < 0.46:
        cls = zoo.UNI_WRAPPER
    elif r < 0.64:
        cls = rng.choice(zoo.BIV_FAMILIES)
    elif r < 0.84:
        cls = zoo.GAUSSIAN_MV
    else:
        cls = zoo.VINE
    kind = zoo.kind_of(cls)
    spec = {'id': mid, 'cls': cls, 'ctor': {}, 'seed': zoo.rand_seedspec(rng, allow_shared=True),
            'fit_state': rng.randrange(2**31)}
    if kind == 'uni':
        spec['data'] = zoo.rand_uni_dataspec(rng, 30, 60)
        if cls.endswith('GaussianKDE') and rng.random() < 0.4:
            spec['ctor']['sample_size'] = rng.choice([5, 20, 50])
        if cls == zoo.UNI_WRAPPER:
            if rng.random() < 0.8:
                k = rng.randint(1, 3)
                spec['ctor']['candidates'] = [{'__cls__': c} for c in
                                              rng.sample(zoo.FAST_UNI + [zoo.UNI_FAMILIES[2]], k)]
            else:
                spec['ctor']['parametric'] = {'__enum__': ['copulas.univariate.base',
                                                           'ParametricType', 'PARAMETRIC']}
            if rng.random() < 0.35:
                # candidate selection on a subsample (drawn while fitting)
                spec['ctor']['selection_sample_size'] = rng.choice([10, 25, 1000])
    elif kind == 'biv':
        tau = rng.choice([0.15, 0.3, 0.5, 0.7])
        if cls.endswith('Frank') and rng.random() < 0.4:
            tau = -tau
        spec['data'] = {'kind': 'pobs', 'n': rng.randint(40, 80), 'tau': tau,
                        'seed': rng.randrange(2**31)}
    elif kind == 'gmv':
        spec['data'] = zoo.rand_table_spec(rng, 2, 4, 30, 60)
        r2 = rng.random()
        if r2 < 0.55:
            spec['ctor']['distribution'] = {'__cls__': zoo.FAST_UNI[0]}
        elif r2 < 0.75:
            spec['ctor']['distribution'] = zoo.FAST_UNI[2]
        elif r2 < 0.9:
            spec['ctor']['distribution'] = {'__map__': {'c0': {'__cls__': zoo.UNI_FAMILIES[1]},
                                                        'c1': zoo.FAST_UNI[1]}}
            # unnamed columns fall back to the default selecting wrapper (slow): keep d small
            spec['data']['margs'] = spec['data']['margs'][:2]
        else:
            spec['ctor']['distribution'] = {'__inst__': zoo.UNI_WRAPPER, 'ctor': {
                'candidates': [{'__cls__': zoo.FAST_UNI[0]}, {'__cls__': zoo.FAST_UNI[1]}]}}
    else:
        spec['ctor']['vine_type'] = rng.choice(zoo.VINE_TYPES)
        spec['data'] = zoo.rand_table_spec(rng, 2, 4, 40, 60, constant_p=0.0,
                                           margs=['normal', 'gamma', 'beta', 'uniform'])
        spec['truncated'] = rng.randint(1, 3)
    return spec


def _fault(rng):
    return {'frac': rng.random(), 'kind': rng.choice(FAULT_KINDS),
            'domain': 'all' if rng.random() < 0.3 else 'copulas'}


def generate(rng, tier, idx):
    n_models = rng.choice([1, 1, 2, 2, 3, 4])
    if rng.random() < 0.25 and n_models >= 2:
        # several live objects of ONE class (state shared between objects of a class, or keyed
        # by something that does not identify the object, shows between such neighbours)
        first = _model_spec(rng, 'm0', tier)
        pop = [first] + [_model_spec(rng, 'm%d' % i, tier, force_cls=first['cls'])
                         for i in range(1, n_models)]
        for p in pop[1:]:
            if 'vine_type' in first['ctor']:
                p['ctor']['vine_type'] = first['ctor']['vine_type']
    else:
        pop = [_model_spec(rng, 'm%d' % i, tier) for i in range(n_models)]
    ops = []
    n_ops = rng.randint(4, 16)
    fault_rate = rng.choice([0.0, 0.0, 0.15, 0.3])
    ids = [p['id'] for p in pop]
    kinds = {p['id']: zoo.kind_of(p['cls']) for p in pop}
    for _ in range(n_ops):
        r = rng.random()
        m = rng.choice(ids)
        if r < 0.5:
            n = rng.choice([1, 1, 2, 3, 5, 8])
            if kinds[m] == 'vine':
                n = min(n, 3)
            elif rng.random() < 0.1:
                # sizes whose draws fill whole blocks of the generator (624 words = 312
                # doubles): the position field of the state is then the same before and after
                n = rng.choice([156, 312, 624])
            if rng.random() < 0.04:
                n = -1
            op = {'op': 'sample', 'm': m, 'n': n}
            if kinds[m] == 'gmv' and rng.random() < 0.3:
                op['cond'] = {'col': rng.randrange(2), 'v': rng.choice([0.1, -0.5, 1.0]),
                              'bad': rng.random() < 0.1}
            if rng.random() < fault_rate:
                op['fault'] = _fault(rng)
            ops.append(op)
        elif r < 0.6:
            ops.append({'op': 'set_random_state', 'm': m,
                        'seed': zoo.rand_seedspec(rng, allow_none=True)})
        elif r < 0.72:
            ops.append({'op': 'app_draw', 'k': rng.randint(1, 700),
                        'how': rng.choice(['random', 'random', 'normal', 'randint'])})
        elif r < 0.78:
            op = {'op': 'app_reseed', 's': rng.randrange(2**31)}
            if (idx + len(ops)) % 3 == 0:
                # the application seeds the global generator with the very state a model's
                # own stream is in (np.random.seed(s) next to Model(random_state=s))
                op['like'] = m
            ops.append(op)
        elif r < 0.83:
            ops.append({'op': 'app_restore', 'j': rng.randrange(8)})
        elif r < 0.88:
            ops.append({'op': 'app_query', 'm': m})
        elif r < 0.93 and kinds[m] == 'biv':
            ops.append({'op': 'sample_badtau', 'm': m, 'n': 2})
        elif r < 0.96 and (idx + len(ops)) % 2 == 0:
            # history: the live model is fitted again (same data) between its sample calls
            ops.append({'op': 'refit', 'm': m})
        elif r < 0.96:
            ops.append({'op': 'pair_fresh', 'm': m, 'seed': rng.randrange(2**31),
                        'n': rng.choice([1, 3]), 'k': rng.randint(1, 50),
                        'seed_kind': rng.choice(['int', 'int', 'same_rs_object', 'equal_rs'])})
        else:
            ops.append({'op': 'dataset', 'name': rng.choice(DATASETS),
                        'size': rng.choice([1, 2, 7, 50]), 'seed': rng.randrange(10**6)})
    return {'g0': rng.randrange(2**31), 'twin_state': rng.randrange(2**31),
            'population': pop, 'ops': ops, 'proc_twin': rng.random() < 0.6}


_ENUM_REPS = [
    ('GaussianUnivariate', zoo.UNI_FAMILIES[0], {}),
    ('GaussianKDE', zoo.UNI_FAMILIES[3], {}),
    ('Beta', zoo.UNI_FAMILIES[1], {}),
    ('TruncatedGaussian', zoo.UNI_FAMILIES[6], {}),
    ('Wrapper', zoo.UNI_WRAPPER, {'candidates': [{'__cls__': zoo.FAST_UNI[0]},
                                                 {'__cls__': zoo.FAST_UNI[2]}]}),
    ('Clayton', zoo.BIV_FAMILIES[0], {}),
    ('Frank', zoo.BIV_FAMILIES[1], {}),
    ('Gumbel', zoo.BIV_FAMILIES[2], {}),
    ('GMV', zoo.GAUSSIAN_MV, {'distribution': {'__cls__': zoo.FAST_UNI[0]}}),
    ('GMVcond', zoo.GAUSSIAN_MV, {'distribution': zoo.FAST_UNI[2]}),
    ('VineC', zoo.VINE, {'vine_type': 'center'}),
    ('VineD', zoo.VINE, {'vine_type': 'direct'}),
    ('VineR', zoo.VINE, {'vine_type': 'regular'}),
]


def fixed_runs(tier):
    """Crash-point enumeration: for one representative seeded call per sampler class, the
    crash points k = offset (mod stride) of the body are injected one by one.  In the
    thorough tier all offsets are present, i.e. every crash point of that call is hit."""
    runs = []
    for name, cls, ctor in _ENUM_REPS:
        # thorough: every crash point (all offsets); quick: a fixed 1/8 .. 1/64 sample
        stride = 16
        offsets = range(stride)
        if tier != 'thorough':
            stride = 96 if name.startswith('Vine') else 16
            offsets = (0, stride // 2 + 1)
        kind = zoo.kind_of(cls)
        spec = {'id': 'm0', 'cls': cls, 'ctor': ctor, 'seed': {'kind': 'int', 'v': 11},
                'fit_state': 5}
        if kind == 'uni':
            spec['data'] = {'kind': 'uni', 'gen': 'gamma', 'n': 40, 'seed': 3, 'loc': 1.0,
                            'scale': 2.0}
        elif kind == 'biv':
            spec['data'] = {'kind': 'pobs', 'n': 60, 'tau': 0.45, 'seed': 4}
        else:
            spec['data'] = {'kind': 'table', 'n': 50, 'seed': 9,
                            'margs': ['normal', 'gamma', 'beta'], 'pattern': 'chain'}
            spec['truncated'] = 2
        domains = ['copulas']
        if tier == 'thorough' and kind == 'uni':
            # the body of the scipy-backed samplers has three lines of its own: widen the
            # tracing domain to every Python frame below it (scipy's rvs / resample)
            domains.append('all')
        for domain in domains:
            for off in offsets:
                op = {'op': 'sample_enum', 'm': 'm0', 'n': 2, 'stride': stride, 'offset': off,
                      'kind': FAULT_KINDS[off % 3], 'domain': domain}
                if name == 'GMVcond':
                    op['cond'] = {'col': 0, 'v': 0.3, 'bad': False}
                runs.append({'g0': 77, 'twin_state': 78, 'population': [spec],
                             'ops': [{'op': 'app_draw', 'k': 3}, op],
                             'enum': name + ':' + domain, 'cpu_budget': 1500})
    return runs


def simplify(run):
    """Argument shrinking after list shrinking: smaller n, no fault, simpler seeds."""
    for i, op in enumerate(run['ops']):
        for key, small in (('n', 1), ('k', 1), ('size', 1)):
            if isinstance(op.get(key), int) and op[key] > small:
                cand = copy.deepcopy(run)
                cand['ops'][i][key] = small
                yield cand
        if 'fault' in op:
            cand = copy.deepcopy(run)
            del cand['ops'][i]['fault']
            yield cand
        if 'cond' in op:
            cand = copy.deepcopy(run)
            del cand['ops'][i]['cond']
            yield cand
    for i, spec in enumerate(run['population']):
        if spec.get('seed') and spec['seed'].get('kind') != 'int':
            cand = copy.deepcopy(run)
            cand['population'][i]['seed'] = {'kind': 'int', 'v': 1}
            yield cand


# ----------------------------------------------------------------------------
# execution
# ----------------------------------------------------------------------------

class ProcTwin:
    """Isolated-stream twin in its own address space: a forked child that owns a copy of one
    model (as of the end of the set-up) and executes only that model's sample /
    set_random_state calls.  Unlike the in-process twin it cannot be reached through
    class-level or module-level state that the live models share."""

    def __init__(self, world, mid):
        import os
        import pickle
        r1, w1 = os.pipe()
        r2, w2 = os.pipe()
        pid = os.fork()
        if pid == 0:                                   # child
            try:
                os.close(w1)
                os.close(r2)
                fin, fout = os.fdopen(r1, 'rb'), os.fdopen(w2, 'wb')
                T = world.twin[mid]
                while True:
                    try:
                        msg = pickle.load(fin)
                    except EOFError:
                        break
                    if msg['cmd'] == 'quit':
                        break
                    try:
                        reply = self._serve(T, msg)
                    except BaseException as e:  # noqa: B902
                        reply = ('harness', repr(e))
                    pickle.dump(reply, fout)
                    fout.flush()
            finally:
                os._exit(0)
        os.close(r1)
        os.close(w2)
        self.pid = pid
        self.fout, self.fin = os.fdopen(w1, 'wb'), os.fdopen(r2, 'rb')

    @staticmethod
    def _serve(T, msg):
        from copsim.core import canon
        if msg['cmd'] == 'set_random_state':
            outcome(T.set_random_state, zoo.make_seed(msg['seed']))
            return ('ok', None, None)
        cond = _cond_for(T, msg['cond'])
        tracer = None
        if msg.get('fault'):
            f = msg['fault']
            tracer = CrashTracer(body_codes_of(T), at=f['at'], kind=f['kind'], domain=f['domain'])
        saved_tau = None
        if msg.get('badtau'):
            saved_tau = T.tau
            T.tau = 2.0
        state = msg['state']
        with with_global_state(state) if state is not None else sterile(msg['sterile']):
            out = _call_sample(T, msg['n'], cond, tracer)
        if saved_tau is not None:
            T.tau = saved_tau
        st = _model_state(T)
        return (outcome_class(out), canon(out[1]) if out[0] == 'ok' else None,
                None if st is None else state_digest(st))

    def call(self, msg):
        import pickle
        pickle.dump(msg, self.fout)
        self.fout.flush()
        return pickle.load(self.fin)

    def close(self):
        import os
        import pickle
        try:
            pickle.dump({'cmd': 'quit'}, self.fout)
            self.fout.flush()
            self.fout.close()
            self.fin.close()
        except Exception:
            pass
        try:
            os.waitpid(self.pid, 0)
        except Exception:
            pass


class _World:
    def __init__(self, run, ctx):
        self.run = run
        self.ctx = ctx
        self.live = {}
        self.twin = {}
        self.meta = {}
        self.snapshots = []
        self.last_fired = False
        self.proc = {}


def _subject(model):
    return type(model).__module__ + '.' + type(model).__name__ + '.sample'


def _seed_kind(w, mid):
    m = w.live[mid]
    if getattr(m, 'random_state', None) is None:
        return 'none'
    return w.meta[mid]['seed_kind']


def _draws_expected(w, mid, n):
    return w.meta[mid]['fitted'] and not w.meta[mid]['constant'] and n >= 1


def _call_sample(model, n, cond, tracer=None):
    kwargs = {}
    if cond is not None:
        kwargs['conditions'] = cond
    if tracer is None:
        return outcome(model.sample, n, **kwargs)
    with tracer:
        return outcome(model.sample, n, **kwargs)


def _cond_for(model, spec):
    if spec is None:
        return None
    cols = getattr(model, 'columns', None)
    if spec.get('bad') or not cols:
        return {'__no_such_column__': 1.0}
    return {cols[spec['col'] % len(cols)]: spec['v']}


def _model_state(model):
    rs = getattr(model, 'random_state', None)
    return None if rs is None else rs.get_state()


def _setup(w):
    shared_live, shared_twin = {}, {}
    for spec in w.run['population']:
        mid = spec['id']
        data = zoo.gen_data(spec['data'])
        with sterile(spec['fit_state']):
            m = zoo.build_model(spec, shared_live)
            seeded_at_birth = _model_state(m)
            out = outcome(zoo.fit_model, m, spec, data)
        # I7 - the stream is a function of (fitted parameters, seed, sequence of SAMPLE calls):
        # a fit is none of these, so it must leave the stored generator where the seed put it
        after_fit = _model_state(m)
        if seeded_at_birth is not None and (
                after_fit is None or not states_equal(seeded_at_birth, after_fit)):
            w.ctx.violate('I7_fit_leaves_the_model_stream_untouched', _subject(m),
                          'the generator stored from the constructor seed was %s by fit()'
                          % ('dropped' if after_fit is None else 'advanced'),
                          seed_kind=(spec.get('seed') or {}).get('kind', 'none'))
        t = copy.deepcopy(m)
        w.live[mid], w.twin[mid] = m, t
        const = False
        if spec['data']['kind'] == 'uni':
            const = spec['data']['gen'] == 'constant'
        w.meta[mid] = {
            'fitted': out[0] == 'ok',
            'fit_error': None if out[0] == 'ok' else type(out[1]).__name__,
            'constant': const,
            'seed_kind': (spec.get('seed') or {}).get('kind', 'none'),
            'cls': zoo.short(spec['cls']) + ('/' + spec['ctor']['vine_type']
                                             if 'vine_type' in spec['ctor'] else ''),
        }
        w.ctx.op_index = -1
        w.ctx.event('setup', mid, w.meta[mid]['cls'], w.meta[mid]['fitted'],
                    w.meta[mid]['fit_error'])
        if out[0] != 'ok':
            w.ctx.probes['population_fit_failed:' + w.meta[mid]['cls']] += 1


def _abstract(w, mid, op, oc):
    st = (w.meta[mid]['cls'] if mid else '-', _seed_kind(w, mid) if mid else '-', op, oc)
    s = '|'.join(st)
    w.ctx.states.add(s)
    if w.ctx.shape:
        w.ctx.states.add(w.ctx.shape[-1] + '>' + s)
    w.ctx.shape.append(s)


def _check_sample(w, mid, n, condspec, fault, label='sample'):
    """One sample call on the live model plus the out-of-band twin execution."""
    ctx = w.ctx
    L, T = w.live[mid], w.twin[mid]
    subject = _subject(L)
    # whether the model is seeded follows from the HISTORY of constructor / set_random_state
    # calls (set_random_state(None) un-seeds), not from what the object reports about itself
    seeded = w.meta[mid]['seed_kind'] != 'none'
    cond_l, cond_t = _cond_for(L, condspec), _cond_for(T, condspec)
    g_before = np.random.get_state()
    pre_state = _model_state(L)
    cls = w.meta[mid]['cls']

    tracer_l = tracer_t = None
    fired = False
    if fault is not None:
        if fault['domain'] == 'all':
            # line events of third-party frames depend on how warm their lazy caches are
            # (a determinism breaker across processes): warm them with one untraced call on a
            # copy, so that the counting pass and the injected run see the same paths whatever
            # the age of this worker process; and retire the process-isolated twin of this
            # model, whose caches have another history
            W = copy.deepcopy(L)
            with with_global_state(g_before):
                _call_sample(W, n, _cond_for(W, condspec))
            pt_old = w.proc.pop(mid, None)
            if pt_old is not None:
                pt_old.close()
                ctx.probes['process_twin_retired_before_all_frames_fault'] += 1
        # counting pass on a copy with the same stored state, under the same global state
        C = copy.deepcopy(L)
        counter = CrashTracer(body_codes_of(C), at=None, domain=fault['domain'])
        with with_global_state(g_before):
            _call_sample(C, n, _cond_for(C, condspec), counter)
        K = counter.count
        ctx.stats['crash_points_counted'] += K
        if K > 0:
            at = fault['at'] if 'at' in fault else min(int(fault['frac'] * K), K - 1)
            tracer_l = CrashTracer(body_codes_of(L), at=at, kind=fault['kind'],
                                   domain=fault['domain'])
            tracer_t = CrashTracer(body_codes_of(T), at=at, kind=fault['kind'],
                                   domain=fault['domain'])
        else:
            ctx.probes['fault_unplaceable_no_crash_points'] += 1

    out_l = _call_sample(L, n, cond_l, tracer_l)
    g_after = np.random.get_state()
    if tracer_l is not None:
        fired = tracer_l.fired
        if fired:
            ctx.faults['F1_exception_in_sampler_body:' + fault['kind']] += 1
            ctx.faults['F1_domain:' + fault['domain']] += 1
            ctx.probes['fault_in_callee' if tracer_l.fired_in != 'sample'
                       else 'fault_in_body_frame'] += 1
            if tracer_l.at == 0:
                ctx.probes['fault_at_first_line'] += 1
            if tracer_l.at == tracer_l.count - 1 and tracer_l.at == K - 1:
                ctx.probes['fault_at_last_line'] += 1
            ctx.nontrivial = True
    oc = outcome_class(out_l)
    ctx.stats['ops'] += 1
    ctx.stats['sample_calls'] += 1
    raised = out_l[0] == 'exc'
    if raised:
        ctx.probes['sample_raised:' + oc] += 1
    cond = {'cls': cls, 'seed_kind': _seed_kind(w, mid), 'raised': raised,
            'injected': bool(fired), 'conditional': condspec is not None}

    def placement_diverged():
        # crash points counted over third-party frames are only comparable when the fault
        # landed at the same place in both executions (lazy caches of pandas/numpy make the
        # number of line events drift even after a warm-up call)
        if tracer_l is None or fault['domain'] != 'all':
            return False
        if tracer_l.fired == tracer_t.fired and tracer_l.fired_in == tracer_t.fired_in:
            return False
        ctx.probes['all_frames_fault_placement_diverged'] += 1
        w.twin[mid] = copy.deepcopy(L)          # resynchronise the twin with the live model
        return True

    if seeded:
        ctx.nontrivial = True
        # I1 - isolation
        if not states_equal(g_before, g_after):
            ctx.violate('I1_global_state_preserved', subject,
                        'global state %s -> %s across a seeded %s (outcome %s)'
                        % (state_digest(g_before), state_digest(g_after), label, oc), **cond)
        # I2 - twin stream, out of band under an unrelated global state
        with sterile(w.run['twin_state']):
            out_t = _call_sample(T, n, cond_t, tracer_t)
        if placement_diverged():
            pass
        elif outcome_class(out_t) != oc or (out_l[0] == 'ok' and not same(out_l[1], out_t[1])):
            ctx.violate('I2_stream_equals_isolated_twin', subject,
                        'live outcome %s differs from isolated twin outcome %s'
                        % (oc, outcome_class(out_t)), **cond)
        post_state = _model_state(L)
        post_twin = _model_state(w.twin[mid])
        if (post_state is None) != (post_twin is None) or (
                post_state is not None and not states_equal(post_state, post_twin)):
            ctx.violate('I2_stored_state_equals_twin', subject,
                        'stored random state after the call differs from the twin', **cond)
        # I3 - advance
        if (out_l[0] == 'ok' and _draws_expected(w, mid, n) and post_state is not None
                and pre_state is not None and states_equal(pre_state, post_state)):
            ctx.violate('I3_stream_advances', subject,
                        'seeded call returned %d row(s) but the stored state did not advance'
                        % n, **cond)
        if w.meta[mid]['seed_kind'] == 'shared':
            ctx.probes['shared_randomstate_sampled'] += 1
    else:
        # I4 - driven by, and reproducible through, the global state
        with with_global_state(g_before):
            out_t = _call_sample(T, n, cond_t, tracer_t)
            g_twin = np.random.get_state()
        if placement_diverged():
            g_twin = g_after
        elif outcome_class(out_t) != oc or (out_l[0] == 'ok' and not same(out_l[1], out_t[1])):
            ctx.violate('I4_unseeded_reproducible_through_global_state', subject,
                        'same global state in, different output out (%s vs %s)'
                        % (oc, outcome_class(out_t)), **cond)
        elif not states_equal(g_after, g_twin):
            ctx.violate('I4_unseeded_reproducible_through_global_state', subject,
                        'same global state in, different global state out', **cond)
        if out_l[0] == 'ok' and _draws_expected(w, mid, n) and states_equal(g_before, g_after):
            ctx.violate('I4_unseeded_driven_by_global_state', subject,
                        'unseeded call returned %d row(s) without consuming the global '
                        'generator' % n, **cond)
    pt = w.proc.get(mid)
    if pt is not None:
        from copsim.core import canon
        msg = {'cmd': 'sample', 'n': n, 'cond': condspec, 'sterile': w.run['twin_state'] + 7,
               'state': None if seeded else g_before, 'badtau': label == 'sample_badtau'}
        if tracer_l is not None:
            msg['fault'] = {'at': tracer_l.at, 'kind': fault['kind'], 'domain': fault['domain']}
        reply = pt.call(msg)
        ctx.stats['process_isolated_twin_calls'] += 1
        if reply[0] == 'harness':
            raise RuntimeError('process twin failed: ' + reply[1])
        mine = canon(out_l[1]) if out_l[0] == 'ok' else None
        post = _model_state(L)
        if reply[0] != oc or reply[1] != mine:
            ctx.violate('I2_stream_equals_process_isolated_twin', subject,
                        'live outcome %s differs from the twin that runs alone in its own '
                        'process (%s)' % (oc, reply[0]), **cond)
        elif seeded and post is not None and reply[2] != state_digest(post):
            ctx.violate('I2_stored_state_equals_process_isolated_twin', subject,
                        'stored random state differs from the process-isolated twin', **cond)
    if out_l[0] == 'ok' and w.meta[mid]['fitted'] and n >= 0:
        try:
            rows = len(out_l[1])
        except TypeError:
            rows = None
        if rows is not None and rows != n:
            ctx.probes['row_count_differs_from_n'] += 1
    ctx.event(label, mid, cls, n, oc, out_l[1] if out_l[0] == 'ok' else None,
              state_digest(g_after), bool(fired))
    _abstract(w, mid, label + ('!' if fired else ''), oc)
    w.last_fired = bool(fired)
    return out_l


def _enum_crash_points(w, op):
    """Inject at every crash point k = offset (mod stride) of one call, each time on fresh
    copies of the live model and its twin."""
    ctx = w.ctx
    mid = op['m']
    L0, T0 = w.live[mid], w.twin[mid]
    n = op['n']
    g_before = np.random.get_state()
    C = copy.deepcopy(L0)
    counter = CrashTracer(body_codes_of(C), at=None, domain=op['domain'])
    with with_global_state(g_before):
        _call_sample(C, n, _cond_for(C, op.get('cond')), counter)
    K = counter.count
    ctx.stats['crash_points_counted'] += K
    ctx.event('enum', mid, K)
    for at in range(op['offset'], K, op['stride']):
        w.live[mid], w.twin[mid] = copy.deepcopy(L0), copy.deepcopy(T0)
        fault = {'at': at, 'frac': 0.0, 'kind': op['kind'], 'domain': op['domain']}
        np.random.set_state(g_before)
        _check_sample(w, mid, n, op.get('cond'), fault, label='sample_enum')
        ctx.stats['crash_points_injected'] += 1
        # I6: the next unfaulted call still agrees with the twin that got the same fault
        _check_sample(w, mid, n, op.get('cond'), None, label='sample_after_fault')
    w.live[mid], w.twin[mid] = L0, T0
    np.random.set_state(g_before)


def _dataset(w, op):
    from copulas import datasets
    ctx = w.ctx
    fn = getattr(datasets, op['name'])
    subject = 'copulas.datasets.' + op['name']
    g_before = np.random.get_state()
    out1 = outcome(fn, op['size'], op['seed'])
    g_after = np.random.get_state()
    cond = {'name': op['name'], 'size': op['size']}
    if not states_equal(g_before, g_after):
        ctx.violate('I5_dataset_leaves_global_state', subject,
                    'global state changed across the generator', **cond)
    with sterile(w.run['twin_state'] + 1):
        out2 = outcome(fn, op['size'], op['seed'])
    if outcome_class(out1) != outcome_class(out2) or (
            out1[0] == 'ok' and not same(out1[1], out2[1])):
        ctx.violate('I5_dataset_deterministic_in_size_seed', subject,
                    'two calls with equal (size, seed) under different global states differ',
                    **cond)
    if out1[0] == 'ok':
        if len(out1[1]) != op['size']:
            ctx.violate('I5_dataset_row_count', subject,
                        'asked for %d rows, got %d' % (op['size'], len(out1[1])), **cond)
    else:
        ctx.violate('I5_dataset_row_count', subject,
                    'generator raised %s' % outcome_class(out1), **cond)
    ctx.stats['ops'] += 1
    ctx.stats['dataset_calls'] += 1
    ctx.nontrivial = True
    ctx.event('dataset', op['name'], op['size'], outcome_class(out1),
              out1[1] if out1[0] == 'ok' else None)
    _abstract(w, None, 'dataset:' + op['name'], outcome_class(out1))


def execute(run):
    ctx = Ctx(run)
    w = _World(run, ctx)
    np.random.seed(run['g0'] % (2**32))
    _setup(w)
    if run.get('proc_twin') and not any(o['op'] == 'sample_enum' for o in run['ops']):
        for mid in w.live:
            w.proc[mid] = ProcTwin(w, mid)
    try:
        _run_ops(w, run, ctx)
    finally:
        for pt in w.proc.values():
            pt.close()
    return ctx.result()


def _run_ops(w, run, ctx):
    for i, op in enumerate(run['ops']):
        ctx.op_index = i
        kind = op['op']
        mid = op.get('m')
        if mid is not None and mid not in w.live:
            continue                     # total ops: unknown model -> no-op (after shrinking)
        if kind == 'sample':
            _check_sample(w, mid, op['n'], op.get('cond'), op.get('fault'))
            if op.get('fault') and w.last_fired:
                # I6 follow-up right after a fault
                _check_sample(w, mid, max(op['n'], 1), None, None, label='sample_after_fault')
        elif kind == 'sample_enum':
            _enum_crash_points(w, op)
        elif kind == 'sample_badtau':
            L, T = w.live[mid], w.twin[mid]
            saved = (L.tau, T.tau)
            L.tau = T.tau = 2.0
            _check_sample(w, mid, op['n'], None, None, label='sample_badtau')
            L.tau, T.tau = saved
        elif kind == 'set_random_state':
            o1 = outcome(w.live[mid].set_random_state, zoo.make_seed(op['seed']))
            outcome(w.twin[mid].set_random_state, zoo.make_seed(op['seed']))
            if mid in w.proc:
                w.proc[mid].call({'cmd': 'set_random_state', 'seed': op['seed']})
            w.meta[mid]['seed_kind'] = (op['seed'] or {}).get('kind', 'none')
            ctx.stats['ops'] += 1
            if op['seed'] is None:
                ctx.probes['set_random_state_none'] += 1
            ctx.event('set_random_state', mid, outcome_class(o1))
            _abstract(w, mid, 'set_random_state', outcome_class(o1))
        elif kind == 'app_draw':
            w.snapshots.append(np.random.get_state())
            how = op.get('how', 'random')
            if how == 'normal':
                # an odd number of legacy normals leaves a cached Gaussian in the state
                v = np.random.normal(size=op['k'])
                if np.random.get_state()[3]:
                    ctx.probes['global_state_holds_cached_gaussian'] += 1
            elif how == 'randint':
                v = np.random.randint(0, 1000, size=op['k'])
            else:
                v = np.random.random(op['k'])
            ctx.stats['ops'] += 1
            ctx.faults['F5_foreign_draws'] += 1
            ctx.event('app_draw', op['k'], v)
        elif kind == 'refit':
            _refit(w, mid)
        elif kind == 'app_reseed':
            np.random.seed(op['s'] % (2**32))
            like = w.live.get(op.get('like'))
            st = _model_state(like) if like is not None else None
            if st is not None:
                np.random.set_state(st)
                ctx.faults['F5_global_state_equals_model_stream'] += 1
            ctx.stats['ops'] += 1
            ctx.faults['F5_foreign_reseed'] += 1
            ctx.event('app_reseed', state_digest())
        elif kind == 'app_restore':
            if w.snapshots:
                np.random.set_state(w.snapshots[op['j'] % len(w.snapshots)])
                ctx.faults['F5_foreign_restore'] += 1
            ctx.stats['ops'] += 1
            ctx.event('app_restore', state_digest())
        elif kind == 'app_query':
            m = w.live[mid]
            g0 = np.random.get_state()
            if w.meta[mid]['fitted'] and hasattr(m, 'cumulative_distribution') \
                    and zoo.kind_of(run_cls(w, mid)) == 'gmv':
                data = zoo.gen_data(spec_of(w, mid)['data']).iloc[:3]
                out = outcome(m.cumulative_distribution, data)
                if not states_equal(g0, np.random.get_state()):
                    ctx.probes['hidden_consumer_advanced_global_state'] += 1
                    ctx.faults['F5_hidden_consumer'] += 1
                ctx.event('app_query', mid, outcome_class(out), state_digest())
            ctx.stats['ops'] += 1
        elif kind == 'dataset':
            _dataset(w, op)
        elif kind == 'pair_fresh':
            _pair_fresh(w, op)


def _refit(w, mid):
    """I7 for a fit later in the object's life: the stored generator - from the constructor,
    from set_random_state, advanced by earlier sample calls - is exactly where it was."""
    ctx = w.ctx
    spec = spec_of(w, mid)
    if not w.meta[mid]['fitted']:
        return
    data = zoo.gen_data(spec['data'])
    pt_old = w.proc.pop(mid, None)
    if pt_old is not None:
        pt_old.close()                       # the forked twin cannot follow a refit
    g0 = np.random.get_state()
    for model, who in ((w.live[mid], 'live'), (w.twin[mid], 'twin')):
        before = _model_state(model)
        with sterile(spec['fit_state']):
            out = outcome(zoo.fit_model, model, spec, data)
        after = _model_state(model)
        if who == 'live':
            ctx.stats['ops'] += 1
            ctx.probes['refit_between_sample_calls'] += 1
            ctx.event('refit', mid, outcome_class(out))
            _abstract(w, mid, 'refit', outcome_class(out))
            changed = (before is None) != (after is None) or (
                before is not None and not states_equal(before, after))
            if out[0] == 'ok' and changed:
                ctx.violate('I7_fit_leaves_the_model_stream_untouched', _subject(model),
                            'a refit %s the stored generator'
                            % ('dropped' if after is None else
                               'created' if before is None else 'moved'),
                            seed_kind=_seed_kind(w, mid), refit=True)
    np.random.set_state(g0)


def _pair_fresh(w, op):
    """Two models built *separately* from the same specification (constructor + fit, not a
    copy) and given the same int seed must produce identical streams, whatever the
    application does to the global generator in between."""
    ctx = w.ctx
    spec = dict(spec_of(w, op['m']))
    sk = op.get('seed_kind', 'int')
    # the same seed as an int, as two equal RandomState objects, or as ONE RandomState object
    # handed to both models (the library reads a seed's state, it does not own the object)
    spec['seed'] = {'kind': 'int', 'v': op['seed']} if sk == 'int' else (
        {'kind': 'rs', 'v': op['seed']} if sk == 'equal_rs' else
        {'kind': 'shared', 'ref': 'pair', 'v': op['seed']})
    data = zoo.gen_data(spec['data'])
    pair = []
    shared = {}
    for _ in range(2):
        with sterile(spec['fit_state']):
            m = zoo.build_model(spec, shared)
            out = outcome(zoo.fit_model, m, spec, data)
        pair.append((m, out))
    caller_rs = shared.get('pair')
    rs_before = None if caller_rs is None else caller_rs.get_state()
    if pair[0][1][0] != 'ok' or pair[1][1][0] != 'ok':
        return
    a, b = pair[0][0], pair[1][0]
    subject = _subject(a)
    g0 = np.random.get_state()
    outs = []
    for call in range(2):
        oa = outcome(a.sample, op['n'])
        np.random.random(op['k'])                       # foreign activity between the twins
        ob = outcome(b.sample, op['n'])
        outs.append((oa, ob))
        if outcome_class(oa) != outcome_class(ob) or (oa[0] == 'ok' and not same(oa[1], ob[1])):
            ctx.violate('I2_equal_models_equal_seed_equal_stream', subject,
                        'call %d: two separately built equal models with seed %d disagree'
                        % (call + 1, op['seed']), cls=w.meta[op['m']]['cls'], call=call + 1)
            break
    if caller_rs is not None and not states_equal(rs_before, caller_rs.get_state()):
        ctx.violate('I2_callers_randomstate_object_not_advanced', subject,
                    'the RandomState object handed to two models as their seed was advanced '
                    'by sampling from them', cls=w.meta[op['m']]['cls'])
    np.random.set_state(g0)
    ctx.stats['ops'] += 1
    ctx.stats['pair_fresh_checks'] += 1
    ctx.probes['pair_fresh:' + sk] += 1
    ctx.nontrivial = True
    ctx.event('pair_fresh', op['m'], [outcome_class(o[0]) for o in outs])
    _abstract(w, op['m'], 'pair_fresh', outcome_class(outs[0][0]))


def spec_of(w, mid):
    return [p for p in w.run['population'] if p['id'] == mid][0]


def run_cls(w, mid):
    return spec_of(w, mid)['cls']
