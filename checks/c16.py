"""C16 - A fitted vine is a regular vine of the requested type and depth.

Which vine gets built depends on what the allocator returned for the partly filled tau
matrices (np.empty), so "is a regular vine of the requested type" has to hold *for every
content of uninitialised memory*; the simulator supplies those contents (allocator fault)
and an independent checker validates every fitted vine.  That the structure is the *same*
under all contents is C19's clause and only reported here."""

import copy

import numpy as np

from checks import vinelib
from copsim import refs
from copsim.core import Ctx, outcome, outcome_class
from copsim.seams import Poison, sterile

PROPERTY = 'C16'
LEVEL = 'exploration'
TIERS = {
    'quick': {'runs': 500, 'wall': 150, 'batch': 2},
    'thorough': {'runs': 20000, 'wall': 840, 'batch': 3},
}
RULE = ('Each run = one simulator-generated table (2-7 columns, 60-300 rows, a chosen ordering '
        'pattern of pairwise |tau|: chain, star, block, equicorrelated, near-independence, '
        'negative dependence, near-tied tau, ties in the data) and a list of (vine type, '
        'truncation) configurations - all three types x a sample of truncations 1..d in quick, '
        'all of them in thorough - each fitted under >= 3 allocator contents (NaN, 0, seeded '
        'noise, +-1e300, 1). Every fitted vine is validated by an independent regular-vine '
        'checker. Non-trivial = a vine with >= 2 trees fitted under a non-zero poison; distinct '
        '= distinct (type, d, truncation, first-tree shape, outcome) shapes.')
STATE_MEASURE = 'distinct (vine type, d, truncation, first-tree degree sequence)'
STUBS = ['allocator content of np.empty in tree.py/vine.py (simulator-chosen pattern)']
ASSUMPTIONS = [
    'select_copula is taken as given (C11)',
    'pandas DataFrame.corr(method="kendall") trusted for the maximum-spanning-tree reference',
    'the combinatorial space of tau orderings is sampled, not enumerated',
]
SUBJECT = 'copulas.multivariate.vine.VineCopula.fit'
POISONS = ['nan', 'noise', 'big', 'negbig', 'ones', 'zero']


def generate(rng, tier, idx):
    thorough = tier == 'thorough'
    table = vinelib.rand_vine_table(rng, 2, 7, 60, 300 if thorough else 150)
    if rng.random() < 0.2:
        # very small tables: Kendall's tau takes few distinct values, so exact ties between
        # pairwise |tau| - in every relative position - are the rule
        table['n'] = rng.randint(8, 15)
        table.pop('round', None)
    d = len(table['margs'])
    configs = []
    for vt in ('center', 'direct', 'regular'):
        truncs = list(range(1, d + 1))
        if not thorough:
            truncs = sorted(set([rng.randint(1, d), max(1, d - 1)]))
        for t in truncs:
            configs.append({'type': vt, 'trunc': t, 'positional': rng.random() < 0.4})
        if rng.random() < 0.5:
            configs.append({'type': vt, 'trunc': None})     # fit(X): the documented default, 3
    patterns = ['nan', 'noise'] + [rng.choice(['big', 'negbig', 'ones', 'zero'])]
    for k, cfg in enumerate(configs):
        if (idx + k) % 3 == 0:
            cfg['use'] = True           # the fitted vine is used, then inspected once more
    return {'table': table, 'ops': configs, 'poisons': patterns,
            'pseed': rng.randrange(1000), 'prefit': rng.random() < 0.3,
            'prefit_trunc': rng.randint(1, d)}


def simplify(run):
    t = run['table']
    if len(t['margs']) > 2:
        cand = copy.deepcopy(run)
        cand['table']['margs'] = t['margs'][:-1]
        yield cand
    if t['n'] > 60:
        cand = copy.deepcopy(run)
        cand['table']['n'] = 60
        yield cand
    if len(run['poisons']) > 1:
        for p in run['poisons']:
            cand = copy.deepcopy(run)
            cand['poisons'] = [p]
            yield cand


def execute(run):
    ctx = Ctx(run)
    df = vinelib.make_table(run['table'])
    d = df.shape[1]
    abs_tau = np.abs(df.corr(method='kendall').to_numpy())
    want_mst = refs.mst_weight(abs_tau)
    off = abs_tau[np.triu_indices(d, 1)]
    if len(off) > 1 and len(np.unique(off)) < len(off):
        ctx.probes['exact_tie_in_pairwise_abs_tau'] += 1
    if d == 2:
        ctx.probes['d_equals_2'] += 1
    prefit = None
    if run.get('prefit'):
        prefit = (vinelib.prefit_table(run['table']), run.get('prefit_trunc', 2))
        ctx.probes['second_fit_of_a_live_vine'] += 1
    for i, cfg in enumerate(run['ops']):
        ctx.op_index = i
        sigs = []
        for p in run['poisons']:
            ctx.stats['fits'] += 1
            vine, out = vinelib.fit_vine(cfg['type'], cfg['trunc'], df, p, run['pseed'],
                                         prefit=prefit, positional=bool(cfg.get('positional')))
            ctx.faults['F3_allocator_garbage:' + p] += 1
            cond = {'vine_type': cfg['type'], 'd': d, 'truncated': cfg['trunc'] or 'default',
                    'poison': p,
                    'refit': prefit is not None, 'pattern': run['table'].get('pattern'),
                    'data_ties': bool(run['table'].get('round'))}
            if out[0] != 'ok':
                # a fit that raises leaves no fitted vine to speak about; it is gated only for
                # tables without near-perfect dependence (all pairwise |tau| <= 0.9), where a
                # refusal cannot be blamed on degenerate conditional data
                if len(df) < 30:
                    # a handful of rows cannot carry a deep vine: conditional data degenerate
                    # (Kendall's tau undefined) and the fit refuses - not gated
                    ctx.probes['fit_raised_on_table_with_fewer_than_30_rows'] += 1
                elif off.size and float(np.max(off)) <= 0.9:
                    ctx.violate('fit_succeeds', SUBJECT,
                                'fit raised %s: %s' % (outcome_class(out), str(out[1])[:160]),
                                exc=outcome_class(out), max_abs_tau=float(np.max(off)), **cond)
                else:
                    ctx.probes['fit_raised_on_near_perfect_dependence'] += 1
                ctx.event('fit', cfg, p, outcome_class(out))
                continue
            problems = refs.check_vine(vine.trees, d, cfg['trunc'] or 3, cfg['type'])
            seen = set()
            for clause, detail in problems:
                if clause in seen:
                    continue
                seen.add(clause)
                ctx.violate('regular_vine:' + clause, SUBJECT, detail, clause=clause, **cond)
            if cfg['type'] == 'regular' and vine.trees:
                w = sum(abs_tau[e.L, e.R] for e in vine.trees[0].edges)
                if abs(w - want_mst) > 1e-9:
                    ctx.violate('regular_first_tree_is_maximum_spanning_tree', SUBJECT,
                                'first tree weight %.12f, maximum spanning tree weight %.12f'
                                % (w, want_mst), **cond)
            if cfg.get('use'):
                # "after fit" does not end with the first call: sampling from the vine,
                # evaluating it and exporting it are reads - the structure found above must
                # still be there afterwards
                sig0 = vinelib.structure_signature(vine)
                with sterile(run['pseed'] + 3), Poison(p, seed=run['pseed']):
                    used = [outcome_class(outcome(vine.sample, 2)),
                            outcome_class(outcome(vine.get_likelihood, np.full(d, 0.4))),
                            outcome_class(outcome(vine.to_dict))]
                ctx.stats['structure_rechecked_after_use'] += 1
                ctx.event('use', used)
                # what to_dict() says the vine is: the exported model, read back, must be the
                # same regular vine (the nested parents of every edge included)
                from copulas.multivariate import VineCopula
                with sterile(run['pseed'] + 4), Poison(p, seed=run['pseed']):
                    back = outcome(lambda: VineCopula.from_dict(vine.to_dict()))
                if back[0] == 'ok':
                    ctx.stats['exported_structure_checked'] += 1
                    for clause, detail in refs.check_vine(back[1].trees, d, cfg['trunc'] or 3,
                                                          cfg['type'], by_content=True):
                        if clause in seen:
                            continue
                        seen.add(clause)
                        ctx.violate('regular_vine_as_exported:' + clause,
                                    SUBJECT.replace('.fit', '.to_dict'),
                                    'from_dict(to_dict(vine)): ' + detail, clause=clause, **cond)
                for clause, detail in refs.check_vine(vine.trees, d, cfg['trunc'] or 3, cfg['type']):
                    if clause in seen:
                        continue
                    seen.add(clause)
                    ctx.violate('regular_vine_after_use:' + clause,
                                SUBJECT.replace('.fit', '.sample'),
                                'after sample(2), get_likelihood and to_dict: ' + detail,
                                clause=clause, **cond)
                if vinelib.structure_signature(vine) != sig0 and not any(
                        v['oracle'].startswith('regular_vine_after_use') for v in ctx.violations):
                    ctx.violate('structure_unchanged_by_use', SUBJECT.replace('.fit', '.sample'),
                                'edges, conditioning sets or families differ after sample(2), '
                                'get_likelihood and to_dict', **cond)
            if (cfg['trunc'] or 3) < d - 1:
                ctx.probes['truncation_below_d_minus_1'] += 1
            if cfg['trunc'] is None:
                ctx.probes['fit_with_default_truncation'] += 1
            if len(vine.trees) >= 3:
                ctx.probes['vine_with_level_3_or_deeper'] += 1
            if len(vine.trees) >= 2 and p != 'zero':
                ctx.nontrivial = True
            sig = vinelib.structure_signature(vine)
            sigs.append(sig)
            deg = {}
            for e in vine.trees[0].edges:
                deg[e.L] = deg.get(e.L, 0) + 1
                deg[e.R] = deg.get(e.R, 0) + 1
            st = '|'.join([cfg['type'], str(d), str(cfg['trunc'] or 'default'),
                           ''.join(map(str, sorted(deg.values())))])
            ctx.states.add(st)
            fams = ''.join(vinelib.fam_of(e)[0] for t in vine.trees for e in t.edges)
            ctx.shape.append(st + '|' + fams)
            ctx.event('fit', cfg, p, 'ok', sig)
        if len(sigs) >= 2 and any(s != sigs[0] for s in sigs[1:]):
            # reported only: "same structure under every content" is C19's clause
            ctx.probes['structure_depends_on_allocator_content'] += 1
        ctx.shape.append('%s|%d|%s|%d' % (cfg['type'], d, cfg['trunc'] or 'default', len(sigs)))
    return ctx.result()
