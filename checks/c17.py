"""C17 - Vine pair-copula data flow, likelihood and sampling are coherent.

Seams: allocator content (get_likelihood reads np.empty matrices: "deterministic function
of (model, u)" must hold for every content of uninitialised memory) and the RNG (two-column
sampling is refined on the recorded draws).

(a) every edge: family/theta == select_copula on the independently derived input columns,
    edge.U == closed-form h-functions of those inputs, strictly inside (0,1)
(b) get_likelihood(u): same value twice, same value under different allocator contents,
    equal to the independent recursion sum log c(h-propagated arguments)
(c) sample(n): n rows, training columns in order, no NaN
(d) d = 2: refinement on the recorded draws, and at n = 2000 DKW / Hoeffding bands"""

import copy

import numpy as np
import pandas as pd

from checks import vinelib
from copsim import refs, zoo
from copsim.core import Ctx, outcome, outcome_class, same
from copsim.seams import Poison, RngRecorder, sterile

PROPERTY = 'C17'
LEVEL = 'exploration'
TIERS = {
    'quick': {'runs': 400, 'wall': 150, 'batch': 2},
    'thorough': {'runs': 20000, 'wall': 840, 'batch': 3},
}
RULE = ('Each run = one simulator-generated table (2-6 columns), one (vine type, truncation), '
        'two different allocator contents for fit and for get_likelihood, 3-6 evaluation '
        'points u in (0,1)^d (random and near the edges), and 1-2 sample calls; for two-column '
        'tables the draws are recorded at the RNG seam and refined exactly, with DKW/Hoeffding '
        'bands at n = 2000. Non-trivial = a fitted vine with >= 2 columns whose likelihood was '
        'evaluated under two allocator contents; distinct = distinct (type, d, truncation, '
        'edge-family tuple, outcome) shapes.')
STATE_MEASURE = 'distinct (vine type, d, truncation, family tuple of the edges)'
STUBS = ['allocator content of np.empty in tree.py/vine.py (simulator-chosen pattern)',
         'recording wrappers around numpy.random.uniform/randint']
ASSUMPTIONS = [
    'closed-form h-functions and densities in copsim/refs.py are the independent reference',
    'select_copula is taken as given (C11) and re-run on the reference input columns',
    'the sampling algorithm for d >= 3 is only checked for shape and missing values, exactly as '
    'far as the property goes',
]
SUBJECT_FIT = 'copulas.multivariate.vine.VineCopula.fit'
SUBJECT_LIK = 'copulas.multivariate.vine.VineCopula.get_likelihood'
SUBJECT_SAMPLE = 'copulas.multivariate.vine.VineCopula.sample'
EPS32 = float(np.finfo(np.float32).eps)
POISONS = ['nan', 'noise', 'big', 'ones', 'zero', 'negbig']


def generate(rng, tier, idx):
    thorough = tier == 'thorough'
    two = rng.random() < 0.3
    table = vinelib.rand_vine_table(rng, 2, 2 if two else 6, 60, 200)
    table.pop('tie_cols', None)
    if not two and rng.random() < 0.06:
        table['n'] = rng.choice([1100, 1300])        # more rows than any internal row limit
        table['margs'] = table['margs'][:4]
    d = len(table['margs'])
    a, b = rng.sample(POISONS, 2)
    pts = []
    for _ in range(rng.randint(3, 6)):
        r_ = rng.random()
        if r_ < 0.1:
            # legal points very close to a face of the cube
            pts.append([rng.choice([1e-9, 1 - 1e-10, 0.3, 0.6, 0.5]) for _ in range(d)])
        elif r_ < 0.3:
            pts.append([rng.choice([0.001, 0.01, 0.99, 0.999, 0.5]) for _ in range(d)])
        else:
            pts.append([round(rng.uniform(0.02, 0.98), 4) for _ in range(d)])
    samples = [rng.choice([1, 3, 5, 0])]
    if d == 2 and rng.random() < (0.5 if thorough else 0.12):
        samples.append(2000 + [0, 1, 337, 999, 500][idx % 5])     # not only round batch sizes
    elif d == 2:
        samples.append(40)
    trunc = rng.randint(1, d)
    if d >= 4 and idx % 17 == 3:
        # one quantity measured d times (pairwise tau about 0.97) and points far from the
        # diagonal: every pair density is tiny but an ordinary double, the log-likelihood is
        # an ordinary number of the order of -1000
        table['collinear'] = 0.03
        for k_ in ('levels', 'round', 'tie_cols'):
            table.pop(k_, None)
        trunc = 1
        pts.append([0.04 if j % 2 == 0 else 0.96 for j in range(d)])
        pts.append([0.1 if j % 2 else 0.9 for j in range(d)])
    return {'table': table, 'type': rng.choice(['center', 'direct', 'regular']),
            'trunc': trunc, 'poisons': [a, b], 'pseed': rng.randrange(1000),
            'seed': zoo.rand_seedspec(rng, allow_none=True), 'g0': rng.randrange(2**31),
            'points': pts, 'ops': [{'op': 'sample', 'n': n} for n in samples],
            'prefit': rng.random() < 0.3, 'prefit_trunc': rng.randint(1, d)}


def simplify(run):
    t = run['table']
    if len(t['margs']) > 2:
        cand = copy.deepcopy(run)
        cand['table']['margs'] = t['margs'][:-1]
        cand['points'] = [p[:-1] for p in run['points']]
        cand['trunc'] = min(run['trunc'], len(t['margs']) - 1)
        yield cand
    if len(run['points']) > 1:
        for i in range(len(run['points'])):
            cand = copy.deepcopy(run)
            cand['points'] = [run['points'][i]]
            yield cand
    if t['n'] > 60:
        cand = copy.deepcopy(run)
        cand['table']['n'] = 60
        yield cand
    if run['trunc'] > 1:
        cand = copy.deepcopy(run)
        cand['trunc'] = run['trunc'] - 1
        yield cand


def _check_flow(ctx, run, vine, cond):
    """(a) edge data flow against the independent reference."""
    from copulas.bivariate import select_copula
    flow = vinelib.ref_flow(vine)
    for item in flow:
        e = item['edge']
        fam = vinelib.fam_of(e)
        ctx.stats['edges_checked'] += 1
        c = dict(cond, level=item['level'],
                 left_parent_lacks_L=bool(e.parents and e.L not in (e.parents[0].L, e.parents[0].R)))
        if e.U is None:
            ctx.violate('a_edge_pseudo_observations', SUBJECT_FIT,
                        'edge (%s,%s|%s) has no pseudo-observations' % (e.L, e.R, sorted(e.D)), **c)
            continue
        U = np.asarray(e.U, dtype=float)
        X = np.column_stack([item['a'], item['b']])
        if not (np.all(np.isfinite(X)) and X.min() >= 0 and X.max() <= 1):
            ctx.probes['reference_inputs_degenerate'] += 1
            continue
        with sterile(3):
            sel = outcome(select_copula, X)
        if sel[0] == 'ok':
            sfam = sel[1].copula_type.name
            if sfam != fam or not np.isclose(float(sel[1].theta), float(e.theta), rtol=1e-6,
                                             atol=1e-9):
                ctx.violate('a_edge_copula_is_select_copula_of_inputs', SUBJECT_FIT,
                            'level %d edge (%s,%s|%s): model has %s theta=%r, select_copula on '
                            'the reference input columns gives %s theta=%r'
                            % (item['level'], e.L, e.R, sorted(e.D), fam, e.theta, sfam,
                               sel[1].theta), **c)
        else:
            ctx.probes['select_copula_refused_reference_inputs'] += 1
        if U.shape != (2, len(item['a'])):
            ctx.violate('a_edge_pseudo_observations', SUBJECT_FIT,
                        'edge U has shape %r' % (U.shape,), **c)
            continue
        if not (np.all(U > 0) and np.all(U < 1)):
            ctx.violate('a_edge_pseudo_observations_inside_unit_interval', SUBJECT_FIT,
                        'level %d edge (%s,%s|%s): U range [%r, %r], finite=%r'
                        % (item['level'], e.L, e.R, sorted(e.D), float(np.nanmin(U)),
                           float(np.nanmax(U)), bool(np.isfinite(U).all())), **c)
        # h-functions of the edge's copula on the selected inputs.  Gating references: the
        # library's own conditional cdf on a fresh copula object (always), and the closed
        # form of copsim.refs where the edge's |tau| <= 0.8 (the families' quantified range)
        refs_to_check = [(0, item['libL'], 1e-12), (1, item['libR'], 1e-12)]
        if item['closed_form_gates']:
            refs_to_check += [(0, item['hL'], 1e-6), (1, item['hR'], 1e-6)]
        else:
            ctx.probes['edge_outside_closed_form_range'] += 1
        for row, ref, tol in refs_to_check:
            ref = np.array(ref, dtype=float)
            # where the h-function rounds to (or beyond) 0 or 1 the property only asks for a
            # value strictly inside (0,1) next to that end
            low, high = ref <= 1e-12, ref >= 1 - 1e-12
            if (low | high).any():
                ctx.probes['zero_one_correction_branch'] += 1
            ok = np.isclose(U[row], ref, rtol=tol, atol=tol)
            ok = np.where(low, (U[row] > 0) & (U[row] < 1e-6), ok)
            ok = np.where(high, (U[row] < 1) & (U[row] > 1 - 1e-6), ok)
            if not ok.all():
                i = int(np.argmin(ok))
                ctx.violate('a_edge_U_is_h_function_of_inputs', SUBJECT_FIT,
                            'level %d edge (%s,%s|%s) row %d obs %d: U=%r, reference F(%s|%s,D)=%r'
                            % (item['level'], e.L, e.R, sorted(e.D), row, i, float(U[row][i]),
                               (e.L, e.R)[row], (e.R, e.L)[row], float(ref[i])), **c)
                break


def _check_likelihood(ctx, run, vine, cond):
    d = vine.n_var
    p0, p1 = run['poisons']
    for k, pt in enumerate(run['points']):
        u = np.array([pt[:d]], dtype=float)
        vals = []
        for p in (p0, p0, p1):
            with sterile(4), Poison(p, seed=run['pseed'] + 5):
                vals.append(outcome(vine.get_likelihood, u.copy()))
            ctx.faults['F3_allocator_garbage:' + p] += 1
        ctx.stats['likelihood_evaluations'] += 3
        classes = [outcome_class(v) for v in vals]
        near_edge = bool(np.min(u) < 0.015 or np.max(u) > 0.985)
        c = dict(cond, near_edge=near_edge)
        if any(cl != 'ok' for cl in classes):
            if len(set(classes)) > 1:
                ctx.violate('b_likelihood_independent_of_uninitialised_memory', SUBJECT_LIK,
                            'u=%r: outcomes %r under allocator contents %r' % (pt, classes, [p0, p0, p1]),
                            **c)
            else:
                ctx.violate('b_likelihood_is_sum_of_log_pair_densities', SUBJECT_LIK,
                            'u=%r: get_likelihood raised %s' % (pt, classes[0]), **c)
            continue
        a, b, cval = (float(v[1]) for v in vals)
        if not same(a, b):
            ctx.violate('b_likelihood_deterministic', SUBJECT_LIK,
                        'u=%r: two calls under the same allocator content gave %r and %r'
                        % (pt, a, b), **c)
        if not same(a, cval):
            ctx.violate('b_likelihood_independent_of_uninitialised_memory', SUBJECT_LIK,
                        'u=%r: %r under %s, %r under %s' % (pt, a, p0, cval, p1), **c)
            continue
        ref = vinelib.ref_loglik(vine, u[0])
        if not np.isfinite(ref):
            ctx.probes['reference_loglik_not_finite'] += 1
            continue
        if not np.isclose(a, ref, rtol=1e-9, atol=1e-9):
            ctx.violate('b_likelihood_is_sum_of_log_pair_densities', SUBJECT_LIK,
                        'u=%r: get_likelihood %r, independent recursion over the edges %r'
                        % (pt, a, ref), **c)
        elif vinelib.within_quantified_range(vine) and not near_edge:
            # cross-check with the closed-form densities (inside their quantified range)
            # reported, not gated: the library's Frank density loses digits from theta ~ 10 on
            # (relative 1e-3 at theta = 15, inside |tau| <= 0.8) - that is C07's matter; a gross
            # disagreement (> 5 %) with the closed forms still gates
            ref2 = vinelib.ref_loglik(vine, u[0], closed_form=True)
            if np.isfinite(ref2) and not np.isclose(a, ref2, rtol=1e-5, atol=1e-5):
                ctx.probes['closed_form_likelihood_differs_beyond_1e-5'] += 1
                if not np.isclose(a, ref2, rtol=0.05, atol=0.05):
                    ctx.violate('b_likelihood_is_sum_of_log_pair_densities', SUBJECT_LIK,
                                'u=%r: get_likelihood %r, closed-form recursion %r'
                                % (pt, a, ref2), reference='closed_form', **c)
        else:
            ctx.probes['closed_form_likelihood_not_applicable'] += 1


def _check_sample(ctx, run, vine, df, n, cond):
    d = vine.n_var
    with RngRecorder() as rec, Poison('zero'):
        out = outcome(vine.sample, n)
    ctx.stats['sample_calls'] += 1
    c = dict(cond, n=n)
    if out[0] != 'ok':
        ctx.violate('c_sample_schema', SUBJECT_SAMPLE, 'sample(%d) raised %s: %s'
                    % (n, outcome_class(out), str(out[1])[:160]), exc=outcome_class(out), **c)
        return
    S = out[1]
    if not isinstance(S, pd.DataFrame) or len(S) != n or list(S.columns) != list(df.columns):
        ctx.violate('c_sample_schema', SUBJECT_SAMPLE, 'want %d rows x %r, got %r x %r'
                    % (n, list(df.columns), len(S), list(getattr(S, 'columns', []))), **c)
        return
    if S.isna().to_numpy().any():
        ctx.violate('c_sample_schema', SUBJECT_SAMPLE, 'missing values in the sample', **c)
        return
    if d != 2:
        return
    # (d) refinement on the recorded draws: per row uniform(0,1,2) then randint(0,2)
    calls = rec.calls
    e = vine.trees[0].edges[0]
    fam, theta = vinelib.fam_of(e), float(e.theta)
    try:
        in_range = abs(refs.tau_of_theta(fam, theta)) <= 0.8
    except Exception:
        in_range = False
    if not in_range:
        # outside the range over which the families' closed forms are quantified (C06-C08) the
        # library's conditional cdf and its inverse lose digits; the refinement would test them
        ctx.probes['two_column_refinement_skipped_tau_above_0.8'] += 1
    elif len(calls) == 2 * n and all(calls[2 * i]['name'] == 'uniform'
                                     and calls[2 * i + 1]['name'] == 'randint' for i in range(n)):
        ctx.probes['two_column_protocol_recognised'] += 1
        X = S.to_numpy()
        bad = 0
        for i in range(n):
            unis = np.asarray(calls[2 * i]['result'], dtype=float)
            first = int(calls[2 * i + 1]['result'])
            other = 1 - first
            x_first = float(np.ravel(vine.unis[first].percent_point(np.array([unis[first]])))[0])
            if not np.isclose(X[i, first], x_first, rtol=1e-9, atol=1e-12):
                ctx.violate('d_first_column_is_marginal_inverse_of_draw', SUBJECT_SAMPLE,
                            'row %d: column %d sampled %r, percent_point(draw) %r'
                            % (i, first, float(X[i, first]), x_first), **c)
                break
            Fx = float(np.ravel(vine.unis[other].cumulative_distribution(
                np.array([X[i, other]])))[0])
            if Fx <= EPS32 * 4 or Fx >= 0.99 - 1e-6:
                ctx.probes['sampling_clip_active'] += 1
                continue
            h = float(refs.hfunc(fam, theta, np.array([Fx]), np.array([unis[first]]))[0])
            dens = float(refs.density(fam, theta, np.array([Fx]), np.array([unis[first]]))[0])
            # F(x) is known to the root finder's tolerance only; h amplifies it by the density
            if not np.isclose(h, unis[other], rtol=0, atol=2e-5 + 1e-7 * max(dens, 0.0)):
                bad += 1
                ctx.violate('d_second_column_follows_pair_copula', SUBJECT_SAMPLE,
                            'row %d: h(F(x_%d) | u_%d) = %r but the draw was %r (%s theta=%r)'
                            % (i, other, first, h, float(unis[other]), fam, theta), **c)
                break
        ctx.stats['rows_refined_exactly'] += n
    else:
        ctx.probes['protocol_unrecognised'] += 1
    if n >= 2000:
        ctx.stats['band_checks'] += 1
        alpha = 1e-9 / 4
        eps = refs.dkw_eps(n, alpha) + 0.011      # the documented clip at the 0.99 quantile
        for j in (0, 1):
            ks = refs.ks_distance(S.iloc[:, j].to_numpy(),
                                  lambda x: vine.unis[j].cumulative_distribution(np.asarray(x)))
            if ks > eps:
                ctx.violate('d_marginal_dkw', SUBJECT_SAMPLE,
                            'column %d: KS distance to the fitted marginal %.4f > %.4f'
                            % (j, ks, eps), **c)
        want = refs.tau_of_theta(fam, theta)
        got = refs.kendall_tau(S.iloc[:, 0].to_numpy(), S.iloc[:, 1].to_numpy())
        et = refs.hoeffding_tau_eps(n, alpha) + 0.03
        if abs(got - want) > et:
            ctx.violate('d_tau_hoeffding', SUBJECT_SAMPLE,
                        'sample tau %.4f, tau of the selected %s copula %.4f, band %.4f'
                        % (got, fam, want, et), **c)


def execute(run):
    ctx = Ctx(run)
    np.random.seed(run['g0'] % (2**32))
    df = vinelib.make_table(run['table'])
    d = df.shape[1]
    p0, p1 = run['poisons']
    seed = zoo.make_seed(run.get('seed'))
    prefit = None
    if run.get('prefit'):
        prefit = (vinelib.prefit_table(run['table']), run.get('prefit_trunc', 2))
        ctx.probes['second_fit_of_a_live_vine'] += 1
    vine, out = vinelib.fit_vine(run['type'], run['trunc'], df, p0, run['pseed'], seed=seed,
                                 prefit=prefit)
    ctx.faults['F3_allocator_garbage:' + p0] += 1
    cond = {'vine_type': run['type'], 'd': d, 'truncated': run['trunc'],
            'refit': prefit is not None}
    if out[0] != 'ok':
        ctx.probes['fit_raised:' + outcome_class(out)] += 1
        ctx.event('fit', outcome_class(out))
        return ctx.result()
    fams = tuple(vinelib.fam_of(e)[0] for t in vine.trees for e in t.edges)
    lacks = vinelib.left_parent_lacks_L(vine)
    if lacks:
        ctx.probes['parent_orientation_left_parent_lacks_L'] += lacks
    ctx.event('fit', 'ok', vinelib.structure_signature(vine))
    _check_flow(ctx, run, vine, cond)
    _check_likelihood(ctx, run, vine, cond)
    ctx.nontrivial = True
    u0 = np.array([run['points'][0][:d]], dtype=float)
    with sterile(4), Poison(p0, seed=run['pseed'] + 5):
        before = outcome(vine.get_likelihood, u0.copy())
    for i, op in enumerate(run['ops']):
        ctx.op_index = i
        ctx.stats['ops'] += 1
        _check_sample(ctx, run, vine, df, op['n'], cond)
    # "a deterministic function of (model, u)": using the model (sampling from it) in between
    # must not change the value
    with sterile(4), Poison(p0, seed=run['pseed'] + 5):
        after = outcome(vine.get_likelihood, u0.copy())
    ctx.stats['likelihood_evaluations'] += 2
    if outcome_class(before) != outcome_class(after) or (
            before[0] == 'ok' and not same(float(before[1]), float(after[1]))):
        ctx.violate('b_likelihood_unchanged_by_sampling', SUBJECT_LIK,
                    'u=%r: %s before sampling from the model, %s after'
                    % (run['points'][0], before[1] if before[0] == 'ok' else outcome_class(before),
                       after[1] if after[0] == 'ok' else outcome_class(after)), **cond)
    # ... and "(model, u)" includes the model as exported and read back: the copy has the same
    # trees, so the same sum of log densities
    from copulas.multivariate import VineCopula
    with sterile(4), Poison(p0, seed=run['pseed'] + 5):
        back = outcome(lambda: VineCopula.from_dict(vine.to_dict()))
        again = outcome(back[1].get_likelihood, u0.copy()) if back[0] == 'ok' else None
        twice = outcome(back[1].get_likelihood, u0.copy()) if back[0] == 'ok' else None
    if again is not None:
        ctx.stats['likelihood_of_exported_model'] += 1
        for other, what in ((again, 'once'), (twice, 'a second time')):
            if outcome_class(other) != outcome_class(after) or (
                    after[0] == 'ok' and not same(float(other[1]), float(after[1]))):
                ctx.violate('b_likelihood_survives_export', SUBJECT_LIK,
                            'u=%r: %s on the fitted vine, %s on from_dict(to_dict(vine)) '
                            'evaluated %s'
                            % (run['points'][0],
                               after[1] if after[0] == 'ok' else outcome_class(after),
                               other[1] if other[0] == 'ok' else outcome_class(other), what),
                            **cond)
                break
    # the marginals of a vine are kernel estimates sampled through their numerical inverse
    for j, uni in enumerate(getattr(vine, 'unis', []) or []):
        if type(uni).__name__ == 'GaussianKDE' and not gmv_constant(uni):
            ctx.stats['kde_inverse_checks'] += 1
            if not marginal_consistent(uni):
                ctx.violate('d_marginal_inverse_inverts_its_cdf', SUBJECT_SAMPLE,
                            'column %d: cdf(percent_point(p)) != p for the fitted kernel '
                            'estimate (|p - cdf(ppf(p))| > 1e-6 on a probability grid)' % j,
                            **cond)
                break
    st = '|'.join([run['type'], str(d), str(run['trunc']), ''.join(fams)])
    ctx.states.add(st)
    ctx.shape.append(st)
    return ctx.result()


def gmv_constant(uni):
    return getattr(uni, '_constant_value', None) is not None


def marginal_consistent(uni):
    p = np.linspace(0.02, 0.98, 25)
    try:
        back = np.asarray(uni.cdf(np.asarray(uni.percent_point(p), dtype=float)), dtype=float)
    except Exception:
        return False
    return bool(np.all(np.isfinite(back)) and np.max(np.abs(back - p)) <= 1e-6)
