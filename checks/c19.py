"""C19 - Model lifecycle: fit is a pure function of its inputs; misuse fails loudly.

Simulation of *call histories* on live, mutable model objects: sequences of fits on
different data (constant, non-constant, refusing, invalid), fits that fail part-way through
an injected plug-in failure, and differing contents of uninitialised memory between the
live fit and the reference fit.  Reference model: the history-free twin - a fresh object
with the same constructor arguments fitted once, under the same pinned global RNG state.

O1 refit == fresh fit (outcome class and observation)   O2 unfitted queries -> NotFittedError
O3 multivariate rejects invalid tables with ValueError and stays unfitted
O4 get_instance gives a new unfitted object configured like the prototype
O5 nothing observable depends on the content of uninitialised memory"""

import copy
import json

import numpy as np
import pandas as pd

from copsim import obs, zoo
from copsim.core import Ctx, derive_seed, outcome, outcome_class
from copsim.seams import Poison, sterile

PROPERTY = 'C19'
LEVEL = 'exploration'
TIERS = {
    'quick': {'runs': 1500, 'wall': 150, 'batch': 8},
    'thorough': {'runs': 40000, 'wall': 840, 'batch': 6},
}
RULE = ('Each run = one model subject (every univariate family with constructor options, the '
        'selecting wrapper with candidates/filters/selection_sample_size, three bivariate '
        'families, GaussianMultivariate in every configuration form, three vine types) and a '
        'history of 1-6 operations: fit on data drawn from a pool (constant, non-constant with '
        'different location/scale/size, data the fit refuses, invalid tables), fit with an '
        'injected plug-in failure, misuse of an unfitted object, get_instance in every '
        'prototype form; the live fit and the reference fit of a vine run under different '
        'allocator contents. Non-trivial = at least one refit (second fit on the same object) '
        'or a fault/poison differential; distinct = distinct (class, options, data-kind '
        'sequence, outcomes) shapes.')
STATE_MEASURE = 'distinct (class, options, data-kind sequence) prefixes'
STUBS = ['allocator content of np.empty in tree.py/vine.py (simulator-chosen pattern)',
         'failing plug-in marginal (duck-typed, switch-armed by the simulator)']
ASSUMPTIONS = [
    'O1 compares two executions of the same code: a fit that is wrong but history-independent '
    'is invisible (C03/C04)',
    'the global RNG state is pinned equal for the live fit and the twin fit (two fit paths read '
    'the global generator)',
    'state of a previously fitted model after a rejected fit is not gated (property is silent)',
]
POISONS = ['nan', 'zero', 'noise', 'big', 'ones']
UNI = 'copulas.univariate.'


class SwitchMarginal:
    """Duck-typed marginal that raises in fit() while the simulator's switch is on."""
    armed = False
    PARAMETRIC = None
    BOUNDED = None

    def __init__(self):
        from copulas.univariate import GaussianUnivariate
        self._inner = GaussianUnivariate()
        self.fitted = False
        self.__args__ = ()
        self.__kwargs__ = {}

    def fit(self, X):
        if SwitchMarginal.armed:
            raise RuntimeError('injected plug-in failure (switch)')
        self._inner.fit(X)
        self.fitted = True

    def __getattr__(self, name):
        if name.startswith('__') or name == '_inner':
            raise AttributeError(name)
        return getattr(self._inner, name)


# ----------------------------------------------------------------------------
# generation
# ----------------------------------------------------------------------------

def _subject(rng):
    r = rng.random()
    if r < 0.4:
        cls = rng.choice(zoo.UNI_FAMILIES)
        ctor = {}
        if cls.endswith('GaussianKDE'):
            o = rng.random()
            if o < 0.3:
                ctor['sample_size'] = rng.choice([10, 40])
            elif o < 0.6:
                ctor['bw_method'] = rng.choice(['scott', 'silverman', 0.5])
        if cls.endswith('TruncatedGaussian') and rng.random() < 0.5:
            ctor = rng.choice([{'minimum': -50.0, 'maximum': 60.0}, {'minimum': -50.0},
                               {'maximum': 80.0}])
        return {'cls': cls, 'ctor': ctor, 'kind': 'uni'}
    if r < 0.55:
        o = rng.random()
        if o < 0.5:
            ctor = {'candidates': [{'__cls__': c} for c in
                                   rng.sample(zoo.FAST_UNI + [zoo.UNI_FAMILIES[6]], rng.randint(1, 3))]}
        elif o < 0.7:
            ctor = {'parametric': {'__enum__': [UNI + 'base', 'ParametricType', 'PARAMETRIC']},
                    'bounded': {'__enum__': [UNI + 'base', 'BoundedType', 'BOUNDED']}}
        elif o < 0.85:
            ctor = {'candidates': [{'__cls__': zoo.FAST_UNI[0]}, {'__cls__': zoo.FAST_UNI[2]}],
                    'selection_sample_size': 20}
        else:
            ctor = {'candidates': ['switch', {'__cls__': zoo.FAST_UNI[1]}]}
        return {'cls': zoo.UNI_WRAPPER, 'ctor': ctor, 'kind': 'uni'}
    if r < 0.7:
        return {'cls': rng.choice(zoo.BIV_FAMILIES), 'ctor': {}, 'kind': 'biv'}
    if r < 0.85:
        o = rng.random()
        if o < 0.4:
            ctor = {'distribution': {'__cls__': rng.choice(zoo.FAST_UNI)}}
        elif o < 0.6:
            ctor = {'distribution': {'__inst__': zoo.UNI_FAMILIES[3], 'ctor': {'sample_size': 15}}}
        elif o < 0.8:
            ctor = {'distribution': {'__map__': {'c0': zoo.UNI_FAMILIES[6],
                                                 'c1': {'__cls__': zoo.FAST_UNI[2]},
                                                 'c2': zoo.FAST_UNI[0], 'c3': zoo.FAST_UNI[1]}}}
        else:
            ctor = {'distribution': 'switch'}
        return {'cls': zoo.GAUSSIAN_MV, 'ctor': ctor, 'kind': 'gmv'}
    return {'cls': zoo.VINE, 'ctor': {'vine_type': rng.choice(zoo.VINE_TYPES)}, 'kind': 'vine',
            'truncated': rng.choice([1, 2, 3, 4, 5])}


def _data(rng, kind, what=None):
    what = what or rng.choice(['good', 'good', 'good', 'const', 'refuse', 'invalid'])
    if kind == 'uni':
        if what in ('refuse', 'invalid'):
            what = 'good'
        if what == 'const':
            return {'kind': 'uni', 'gen': 'constant', 'n': rng.randint(5, 40),
                    'seed': 1, 'loc': rng.choice([0.0, -3.5, 7.0]), 'scale': 1.0, 'what': 'const'}
        sp = zoo.rand_uni_dataspec(rng, 20, 120, allow_constant=False)
        sp['what'] = 'good'
        return sp
    if kind == 'biv':
        if what == 'const':
            return {'kind': 'pobs_bad', 'mode': 'constant_column', 'n': 30, 'seed': 3,
                    'what': 'refuse'}
        if what == 'invalid':
            return {'kind': 'pobs_bad', 'mode': 'out_of_range', 'n': 30, 'seed': 4,
                    'what': 'refuse'}
        tau = rng.choice([0.2, 0.4, 0.6])
        if what == 'refuse':
            tau = -tau
        return {'kind': 'pobs', 'n': rng.randint(30, 90), 'tau': tau,
                'seed': rng.randrange(2**31), 'what': 'neg' if tau < 0 else 'good'}
    if what == 'invalid':
        return {'kind': 'badtable', 'mode': rng.choice(['empty', 'nan', 'strings', 'mixed',
                                                        'int_then_nan', 'int_then_strings',
                                                        'nan_array']),
                'what': 'invalid'}
    if kind == 'gmv':
        sp = zoo.rand_table_spec(rng, 2, 4, 30, 80, constant_p=0.3 if what == 'const' else 0.05)
        sp['what'] = 'const' if any(m.startswith('constant') for m in sp['margs']) else 'good'
        # the fits of one history arrive in different containers and under different labels
        # (derived from the table's own seed: the generator's PRNG is not consulted)
        h = derive_seed('container', sp['seed'], sp['n'])
        if h % 10 < 3:
            sp['container'] = 'ndarray'
        elif h % 10 < 5:
            sp['names'] = ['z%d' % (len(sp['margs']) - i) for i in range(len(sp['margs']))]
        return sp
    sp = zoo.rand_table_spec(rng, 2, 6, 40, 70, constant_p=0.0,
                             margs=['normal', 'gamma', 'beta', 'uniform'],
                             patterns=('random', 'chain', 'star', 'equi', 'weak'))
    if what in ('const', 'refuse'):
        sp['margs'][-1] = 'constant'
        sp['what'] = 'refuse'
    else:
        sp['what'] = 'good'
    return sp


def generate(rng, tier, idx):
    subj = _subject(rng)
    kind = subj['kind']
    use_pristine = rng.random() < 0.5
    if idx % 4 == 1:
        # a model seeded at construction: its stream belongs to sampling, a fit neither reads
        # nor moves it
        subj['ctor'].setdefault('random_state', 1000 + idx % 7)
        if subj['cls'] == zoo.UNI_WRAPPER and isinstance(subj['ctor'].get('candidates'), list) \
                and 'switch' not in subj['ctor']['candidates'] and idx % 8 == 1:
            subj['ctor'].setdefault('selection_sample_size', 20)
    if rng.random() < 0.35:
        subj['pos'] = rng.choice([1, 2])
        if zoo.short(subj['cls']) in ('GaussianKDE', 'TruncatedGaussian', 'GaussianMultivariate') \
                and rng.random() < 0.5:
            # make sure there is a keyword argument next to the positional one
            extra = {'GaussianKDE': ('bw_method', 'silverman'),
                     'TruncatedGaussian': ('maximum', 95.0),
                     'GaussianMultivariate': ('random_state', 4)}[zoo.short(subj['cls'])]
            if zoo.short(subj['cls']) == 'GaussianKDE':
                subj['ctor'].setdefault('sample_size', 25)
            if zoo.short(subj['cls']) == 'TruncatedGaussian':
                subj['ctor'].setdefault('minimum', -70.0)
                subj['pos'] = 1
            subj['ctor'].setdefault(*extra)
    ops = []
    if rng.random() < 0.35:
        ops.append({'op': 'misuse'})
    for _ in range(rng.randint(1, 4)):
        op = {'op': 'fit', 'data': _data(rng, kind), 'state': rng.randrange(2**31)}
        if kind == 'vine' or rng.random() < 0.5:
            a, b = rng.sample(POISONS, 2)
            op['poison'] = [a, b]
            op['pseed'] = rng.randrange(1000)
        if rng.random() < 0.3:
            op['scribble'] = True
        if kind == 'vine' and rng.random() < 0.5:
            op['trunc'] = rng.choice([None, None, 1, 2, 4])   # per call; None = the default
        if 'switch' in repr(subj['ctor']) and rng.random() < 0.4:
            op['arm'] = True
        if rng.random() < 0.12:
            # a fit that is interrupted part-way (Ctrl-C, MemoryError) - the object is kept and
            # fitted again later; that later fit is compared with a fresh one as always
            ops.append({'op': 'fit_interrupted', 'data': _data(rng, kind, 'good'),
                        'state': rng.randrange(2**31), 'frac': rng.random(),
                        'kind': rng.choice(['KeyboardInterrupt', 'MemoryError', 'ValueError'])})
        ops.append(op)
        if rng.random() < 0.45:
            ops.append({'op': 'use', 'seed': rng.randrange(1000)})
        if rng.random() < 0.25:
            ops.append({'op': 'get_instance',
                        'form': rng.choice(['name', 'class', 'instance', 'fresh_instance',
                                            'kwargs']),
                        'data': _data(rng, kind, 'good'), 'state': rng.randrange(2**31)})
    if rng.random() < 0.25 and kind in ('gmv', 'vine'):
        # "rejects ... and stays unfitted" is stated for multivariate models only
        ops.append({'op': 'misuse_after_refusal', 'data': _data(rng, kind, 'invalid')})
    return {'subject': subj, 'ops': ops, 'pristine': use_pristine}


def simplify(run):
    for i, op in enumerate(run['ops']):
        d = op.get('data')
        if d and d.get('n', 0) > 30 and d['kind'] in ('uni', 'table', 'pobs'):
            cand = copy.deepcopy(run)
            cand['ops'][i]['data']['n'] = 30
            yield cand
        if d and d.get('kind') == 'table' and len(d['margs']) > 2:
            cand = copy.deepcopy(run)
            cand['ops'][i]['data']['margs'] = d['margs'][:-1]
            yield cand
        if op.get('poison') and op['poison'] != ['zero', 'nan']:
            cand = copy.deepcopy(run)
            cand['ops'][i]['poison'] = ['zero', 'nan']
            yield cand


# ----------------------------------------------------------------------------
# execution
# ----------------------------------------------------------------------------

def _make_data(spec):
    k = spec['kind']
    if k == 'pobs_bad':
        rs = np.random.RandomState(spec['seed'])
        X = rs.uniform(0.05, 0.95, size=(spec['n'], 2))
        if spec['mode'] == 'constant_column':
            X[:, 1] = 0.5
        else:
            X[3, 0] = 1.7
        return X
    if k == 'badtable':
        if spec['mode'] == 'empty':
            return pd.DataFrame({'c0': [], 'c1': [], 'c2': []}, dtype=float)
        if spec['mode'] == 'nan':
            df = pd.DataFrame(np.random.RandomState(1).normal(size=(20, 3)),
                              columns=['c0', 'c1', 'c2'])
            df.iloc[4, 1] = np.nan
            return df
        if spec['mode'] == 'strings':
            return pd.DataFrame({'c0': ['a', 'b', 'c'], 'c1': ['x', 'y', 'z'],
                                 'c2': ['p', 'q', 'r']})
        if spec['mode'] == 'int_then_nan':
            r = np.random.RandomState(2)
            return pd.DataFrame({'c0': r.randint(0, 9, size=20), 'c1': r.normal(size=20),
                                 'c2': np.where(np.arange(20) == 7, np.nan, r.normal(size=20))})
        if spec['mode'] == 'int_then_strings':
            return pd.DataFrame({'c0': [1, 2, 3, 4], 'c1': [0.5, 0.1, 0.9, 0.3],
                                 'c2': ['x', 'y', 'z', 'w']})
        if spec['mode'] == 'nan_array':
            a = np.random.RandomState(3).normal(size=(20, 3))
            a[5, 2] = np.nan
            return pd.DataFrame(a, columns=['c0', 'c1', 'c2'])
        return pd.DataFrame({'c0': [1.0, 2.0, 3.0, 4.0], 'c1': ['x', 'y', 'z', 'w'],
                             'c2': [0.5, 0.1, 0.9, 0.3]})
    data = zoo.gen_data(spec)
    if k == 'table' and spec.get('container') == 'ndarray':
        return data.to_numpy().copy()        # the caller's own, writable array
    return data


def _check_log_density(ctx, model, subj, data, cond):
    """O5 at a place no allocator seam reaches (the output buffer of a masked ufunc): the log
    density is the logarithm of the density in every row, also where the density underflows
    to 0 (-inf) or is undefined (nan) - never whatever the buffer held before."""
    rows = data.iloc[:3].to_numpy(dtype=float) if isinstance(data, pd.DataFrame) \
        else np.asarray(data[:3], dtype=float)
    far = rows.copy()
    far[:, 0] = far[:, 0] * 1e3 + 1e7            # hopeless rows: density 0 (or undefined)
    far[1:, -1] = -far[1:, -1] * 1e3 - 1e7
    X = np.vstack([rows, far])
    cols = getattr(model, 'columns', None)
    Xq = pd.DataFrame(X, columns=cols) if cols is not None and len(cols) == X.shape[1] else X
    with sterile(9):
        dens = outcome(model.probability_density, Xq)
    with sterile(9):
        logd = outcome(model.log_probability_density, Xq)
    if dens[0] != 'ok' or logd[0] != 'ok':
        return
    ctx.stats['log_density_checks'] += 1
    with np.errstate(all='ignore'):
        want = np.log(np.asarray(dens[1], dtype=float))
    got = np.asarray(logd[1], dtype=float)
    if np.any(np.asarray(dens[1]) == 0):
        ctx.probes['zero_density_row_queried'] += 1
    if got.shape != want.shape or not np.array_equal(got, want, equal_nan=True):
        ctx.violate('O5_log_density_is_log_of_density', _subject_name(subj, 'log_probability_density'),
                    'density %s, log density %s' % (np.asarray(dens[1]).tolist(), got.tolist()),
                    **cond)


def _decode_ctor(ctor):
    def sub(v):
        if v == 'switch':
            return SwitchMarginal
        if isinstance(v, list):
            return [sub(x) for x in v]
        return v
    c = {k: sub(v) for k, v in ctor.items()}
    out = zoo.decode_ctor({k: v for k, v in c.items() if not _has_switch(v)})
    for k, v in c.items():
        if _has_switch(v):
            if isinstance(v, list):
                out[k] = [x if x is SwitchMarginal else zoo.decode_ctor({'x': x})['x'] for x in v]
            else:
                out[k] = v
    return out


def _has_switch(v):
    return v is SwitchMarginal or (isinstance(v, list) and any(x is SwitchMarginal for x in v))


LEADING = {'GaussianKDE': ['sample_size'], 'TruncatedGaussian': ['minimum', 'maximum'],
           'Univariate': ['candidates'], 'GaussianMultivariate': ['distribution'],
           'VineCopula': ['vine_type']}


def _fresh(subj):
    """Fresh object; subj['pos'] leading constructor arguments are passed positionally (a
    prototype may have been built with any mix of positional and keyword arguments)."""
    ctor = _decode_ctor(subj['ctor'])
    args = []
    for name in LEADING.get(zoo.short(subj['cls']), [])[:subj.get('pos', 0)]:
        if name not in ctor:
            break
        args.append(ctor.pop(name))
    return zoo.load_class(subj['cls'])(*args, **ctor)


def _fit(model, subj, data, state, poison, pseed, arm, trunc='subject'):
    SwitchMarginal.armed = bool(arm)
    try:
        with sterile(state), Poison(poison, seed=pseed):
            if subj['kind'] == 'vine':
                t = subj.get('truncated', 3) if trunc == 'subject' else trunc
                if t is None:
                    return outcome(model.fit, data)          # default truncation
                return outcome(model.fit, data, truncated=t)
            return outcome(model.fit, data)
    finally:
        SwitchMarginal.armed = False


def pristine_twin(subj, dataspec, state, poison, pseed, arm, trunc='subject'):
    """Runs in a pristine grandchild process: fresh object, one fit, observation."""
    twin = _fresh(subj)
    data = _make_data(dataspec)
    out = _fit(twin, subj, data, state, poison, pseed, arm, trunc)
    rec = {'outcome': outcome_class(out)}
    if out[0] == 'ok':
        rec['obs'] = obs.observe(twin, subj['kind'], data, poison=poison)
    return rec


def _scribble(data):
    """Overwrite a caller-owned training buffer in place."""
    if isinstance(data, np.ndarray):
        data[...] = data[::-1].copy() * 3.0 + 17.0
    elif isinstance(data, pd.DataFrame):
        for c in data.columns:
            data[c] = data[c].to_numpy()[::-1] * 3.0 + 17.0
    elif isinstance(data, pd.Series):
        data[:] = data.to_numpy()[::-1] * 3.0 + 17.0


def _call_fit(model, subj, data):
    if subj['kind'] == 'vine':
        return model.fit(data, truncated=subj.get('truncated', 3))
    return model.fit(data)


def _subject_name(subj, method):
    return subj['cls'] + '.' + method


def _opts(subj):
    c = subj['ctor']
    keys = sorted(c)
    tag = ','.join(keys)
    if 'vine_type' in c:
        tag = c['vine_type']
    return tag or '-'


def _check_unfitted_or_complete(ctx, model, subj, data, state, d):
    """After an interrupted first fit the object is either unfitted (every query raises
    NotFittedError) or - the exception came after the last state change - a completely fitted
    model, i.e. observably identical to a fresh object fitted on the same data.  Anything in
    between (answers from half-updated state, other exceptions) is the violation."""
    kind = subj['kind']
    outs = []
    for name, thunk in obs.misuse_calls(model, kind, d):
        with sterile(5), Poison('zero'):
            outs.append((name, outcome_class(outcome(thunk))))
        ctx.stats['misuse_calls'] += 1
    if all(oc == 'NotFittedError' for _, oc in outs):
        return
    twin = _fresh(subj)
    o = _fit(twin, subj, data, state, 'zero', 0, False)
    if o[0] == 'ok' and not obs.diff(obs.observe(model, kind, data), obs.observe(twin, kind, data)):
        ctx.probes['fit_interrupted_after_its_last_state_change'] += 1
        return
    bad = [(n, oc) for n, oc in outs if oc != 'NotFittedError']
    ctx.violate('O2_interrupted_first_fit_leaves_unfitted_or_complete',
                _subject_name(subj, 'fit'),
                'after an interrupted first fit the object is neither unfitted nor equal to a '
                'fitted one: %s' % bad[:4], cls=zoo.short(subj['cls']), opts=_opts(subj),
                got=sorted(set(oc for _, oc in bad)))


def _check_unfitted(ctx, model, subj, where, d=3):
    """O2 on an object that must be unfitted."""
    kind = subj['kind']
    for name, thunk in obs.misuse_calls(model, kind, d):
        with sterile(5), Poison('zero'):
            out = outcome(thunk)
        ctx.stats['misuse_calls'] += 1
        if outcome_class(out) != 'NotFittedError':
            ctx.violate('O2_unfitted_raises_NotFittedError', _subject_name(subj, name),
                        '%s on an unfitted model (%s): %s' % (
                            name, where, 'returned a value' if out[0] == 'ok'
                            else 'raised ' + outcome_class(out)),
                        cls=zoo.short(subj['cls']), method=name, where=where,
                        got=outcome_class(out), opts=_opts(subj))


def execute(run):
    ctx = Ctx(run)
    subj = run['subject']
    kind = subj['kind']
    cls_short = zoo.short(subj['cls'])
    pristine = None
    if run.get('pristine'):
        from copsim.seams import Pristine
        pristine = Pristine()
    try:
        return _execute(run, ctx, subj, kind, cls_short, pristine)
    finally:
        if pristine is not None:
            pristine.close()


def _execute(run, ctx, subj, kind, cls_short, pristine):
    live = _fresh(subj)
    n_fit_ok = 0
    n_fit_calls = 0
    seq = []
    last_good = None
    for i, op in enumerate(run['ops']):
        ctx.op_index = i
        ctx.stats['ops'] += 1
        if op['op'] == 'misuse':
            if n_fit_calls == 0:
                _check_unfitted(ctx, live, subj, 'never fitted')
            _check_unfitted(ctx, _fresh(subj), subj, 'fresh')
            seeded = _fresh(subj)
            if outcome(seeded.set_random_state, 7)[0] == 'ok':
                _check_unfitted(ctx, seeded, subj, 'fresh, seeded')
            ctx.event('misuse')
            continue
        if op['op'] == 'misuse_after_refusal':
            fresh = _fresh(subj)
            data = _make_data(op['data'])
            out = _fit(fresh, subj, data, 11, 'zero', 0, False)
            if out[0] == 'exc':
                ctx.probes['refused_fit_then_misuse'] += 1
                d = data.shape[1] if hasattr(data, 'shape') and len(data.shape) == 2 else 3
                _check_unfitted(ctx, fresh, subj, 'after a refused fit (%s)'
                                % op['data'].get('mode', op['data'].get('what')), d)
            ctx.event('misuse_after_refusal', outcome_class(out))
            continue
        if op['op'] == 'fit_interrupted':
            from copsim.seams import CrashTracer, body_codes_of
            data = _make_data(op['data'])
            counter = CrashTracer(body_codes_of(live, 'fit'), at=None)
            probe = copy.deepcopy(live)
            counter.body_codes = set(body_codes_of(probe, 'fit'))
            SwitchMarginal.armed = False
            with sterile(op['state']), Poison('zero'), counter:
                outcome(_call_fit, probe, subj, data)
            K = counter.count
            if K > 0:
                at = min(int(op['frac'] * K), K - 1)
                tr = CrashTracer(body_codes_of(live, 'fit'), at=at, kind=op['kind'])
                with sterile(op['state']), Poison('zero'), tr:
                    o = outcome(_call_fit, live, subj, data)
                if tr.fired:
                    ctx.faults['F1_exception_inside_fit:' + op['kind']] += 1
                    ctx.nontrivial = True
                    if n_fit_ok == 0 and n_fit_calls == 0 and o[0] == 'exc' and kind != 'biv':
                        # a fresh object whose only fit never completed is an unfitted object
                        ctx.probes['first_fit_interrupted_then_misuse'] += 1
                        d_ = data.shape[1] if kind in ('gmv', 'vine') else 3
                        _check_unfitted_or_complete(ctx, live, subj, data, op['state'], d_)
                n_fit_calls += 1
                seq.append('interrupted:' + outcome_class(o))
                ctx.event('fit_interrupted', outcome_class(o), bool(tr.fired))
            continue
        if op['op'] == 'fit':
            data = _make_data(op['data'])
            what = op['data'].get('what', 'good')
            p = op.get('poison') or ['zero', 'zero']
            n_fit_calls += 1
            tr_ = op.get('trunc', 'subject')
            out_l = _fit(live, subj, data, op['state'], p[0], op.get('pseed', 0), op.get('arm'),
                         tr_)
            twin = _fresh(subj)
            # "depends only on its constructor arguments and X": not on where the process-wide
            # generator happens to stand either.  The fresh model is fitted under ANOTHER global
            # state - unless the configuration itself asks for a random subsample while fitting
            # (selection_sample_size, the kernel estimate's sample_size), where the global
            # stream is an input by design
            drawn_by_design = 'sample_size' in json.dumps(subj.get('ctor') or {})
            state_t = op['state'] if drawn_by_design else op['state'] + 1
            if not drawn_by_design:
                ctx.faults['F5_other_global_state_for_fresh_fit'] += 1
            out_t = _fit(twin, subj, data, state_t, p[1], op.get('pseed', 0) + 1,
                         op.get('arm'), tr_)
            if op.get('arm'):
                ctx.faults['F2_plugin_failure_in_fit'] += 1
            if p[0] != p[1]:
                ctx.faults['F3_allocator_garbage:%s/%s' % tuple(p)] += 1
            oc_l, oc_t = outcome_class(out_l), outcome_class(out_t)
            seq.append(what + ('!' if op.get('arm') else '') + ':' + oc_l)
            refit = n_fit_calls > 1
            if refit:
                ctx.nontrivial = True
                ctx.probes['refit'] += 1
                if len(seq) >= 2:
                    a, b = seq[-2].split(':')[0], seq[-1].split(':')[0]
                    if a.startswith('const') and b.startswith('good'):
                        ctx.probes['refit_constant_to_nonconstant'] += 1
                    if a.startswith('good') and b.startswith('const'):
                        ctx.probes['refit_nonconstant_to_constant'] += 1
                    if not seq[-2].endswith(':ok') and seq[-1].endswith(':ok'):
                        ctx.probes['refused_fit_then_good_fit'] += 1
            if p[0] != p[1]:
                ctx.nontrivial = True
            cond = {'cls': cls_short, 'opts': _opts(subj), 'refit': refit, 'what': what,
                    'history': [s.split(':')[0] for s in seq][-3:]}
            if kind == 'vine':
                cond['vine_type'] = subj['ctor']['vine_type']
                cond['d'] = int(data.shape[1])
                cond['truncated'] = subj.get('truncated', 3)
                cond['poison_differs'] = p[0] != p[1]
            if oc_l != oc_t:
                ctx.violate('O1_fit_outcome_equals_fresh_fit', _subject_name(subj, 'fit'),
                            'fit on %s data: live object %s, fresh object %s (history %s)'
                            % (what, oc_l, oc_t, seq), **cond)
            elif out_l[0] == 'ok':
                n_fit_ok += 1
                last_good = op['data']
                if kind == 'gmv':
                    _check_log_density(ctx, live, subj, data, cond)
                if op.get('scribble') and hasattr(data, 'shape'):
                    # the caller re-uses its training buffer for something else: the fitted
                    # model must not follow (its state depends on X as it was at fit time)
                    probe_grid = copy.deepcopy(data)
                    before_s = obs.observe(live, kind, probe_grid, poison=p[0])
                    _scribble(data)
                    after_s = obs.observe(live, kind, probe_grid, poison=p[0])
                    ctx.probes['training_buffer_overwritten_after_fit'] += 1
                    ks = obs.diff(before_s, after_s)
                    if ks:
                        ctx.violate('O1_state_depends_on_X_at_fit_time_only',
                                    _subject_name(subj, 'fit'),
                                    'overwriting the caller\'s training buffer after fit changed '
                                    'the model in %s' % ks, differs=ks, **cond)
                    data = probe_grid
                # observed under the two allocator contents of this fit: anything that reaches
                # an observation from an uninitialised buffer differs between them
                a = obs.observe(live, kind, data, poison=p[0])
                b = obs.observe(twin, kind, data, poison=p[1])
                keys = obs.diff(a, b)
                ctx.stats['twin_comparisons'] += 1
                if pristine is not None and not keys and not op.get('arm'):
                    # the same reference once more, from a process nothing in this run touched
                    ref = pristine.call('checks.c19', 'pristine_twin', subj, op['data'],
                                        op['state'], p[1], op.get('pseed', 0) + 1, False, tr_)
                    ctx.stats['pristine_process_twins'] += 1
                    if ref['outcome'] != 'ok':
                        ctx.violate('O1_fit_outcome_equals_pristine_process_fit',
                                    _subject_name(subj, 'fit'),
                                    'fit returned here, raised %s in a pristine process'
                                    % ref['outcome'], **cond)
                    else:
                        k2 = obs.diff(a, ref['obs'])
                        if k2:
                            ctx.violate('O1_fit_equals_fit_in_pristine_process',
                                        _subject_name(subj, 'fit'),
                                        'observations differ in %s from a fresh object fitted in '
                                        'a pristine process (history %s)' % (k2, seq),
                                        differs=k2, **cond)
                if keys:
                    oracle = 'O1_refit_equals_fresh_fit' if refit else (
                        'O5_independent_of_uninitialised_memory' if p[0] != p[1]
                        else 'O1_two_fresh_fits_equal')
                    if refit and p[0] != p[1]:
                        # decide which cause: repeat the twin under the live pattern
                        twin2 = _fresh(subj)
                        _fit(twin2, subj, data, op['state'], p[0], op.get('pseed', 0), False, tr_)
                        if not obs.diff(a, obs.observe(twin2, kind, data, poison=p[0])):
                            oracle = 'O5_independent_of_uninitialised_memory'
                    ctx.violate(oracle, _subject_name(subj, 'fit'),
                                'observations differ in %s (history %s)' % (keys, seq),
                                differs=keys, **cond)
            else:
                # O3: invalid tables must be refused with ValueError by multivariate models
                if what == 'invalid' and kind in ('gmv', 'vine'):
                    ctx.probes['rejected_multivariate_fit'] += 1
                    if oc_t != 'ValueError':
                        ctx.violate('O3_invalid_table_rejected_with_ValueError',
                                    _subject_name(subj, 'fit'),
                                    '%s table: fresh model raised %s'
                                    % (op['data']['mode'], oc_t), mode=op['data']['mode'], **cond)
                    _check_unfitted(ctx, twin, subj, 'after rejected %s table' % op['data']['mode'])
            if what == 'invalid' and kind in ('gmv', 'vine') and out_t[0] == 'ok':
                ctx.violate('O3_invalid_table_rejected_with_ValueError',
                            _subject_name(subj, 'fit'),
                            '%s table was accepted' % op['data']['mode'],
                            mode=op['data']['mode'], **cond)
            ctx.event('fit', what, oc_l, oc_t)
            st = '|'.join([cls_short, _opts(subj), '>'.join(seq)])
            ctx.states.add(st)
            ctx.shape.append(st)
            continue
        if op['op'] == 'get_instance':
            _get_instance(ctx, run, subj, live, op, n_fit_ok)
        if op['op'] == 'use':
            # the live object is *used* between fits (queries and samples populate whatever
            # caches it keeps); outputs are ignored here - the next refit is compared with a
            # fresh fit
            ctx.probes['live_object_used_between_fits'] += 1
            with sterile(op['seed']), Poison('zero'):
                for name, thunk in obs.misuse_calls(live, kind, _ncols(last_good)):
                    outcome(thunk)
                if kind == 'gmv' and last_good is not None and n_fit_ok:
                    cols = list(getattr(live, 'columns', []) or [])
                    if len(cols) >= 2:
                        outcome(live.sample, 2, conditions={cols[0]: 0.1})
                        outcome(live.sample, 2, conditions={cols[-1]: 0.2, cols[0]: 0.3})
            ctx.event('use')
    return ctx.result()


def _ncols(dataspec):
    if dataspec and dataspec.get('kind') == 'table':
        return len(dataspec['margs'])
    return 3


def _get_instance(ctx, run, subj, live, op, n_fit_ok):
    from copulas.utils import get_instance
    kind = subj['kind']
    form = op['form']
    cls = zoo.load_class(subj['cls'])
    expect_ctor = subj['ctor']
    kw = {}
    if form == 'name':
        proto = subj['cls']
        expect_ctor = {}
        if kind == 'vine':
            kw = {'vine_type': subj['ctor']['vine_type']}
            expect_ctor = subj['ctor']
    elif form == 'class':
        proto = cls
        expect_ctor = {}
        if kind == 'vine':
            kw = {'vine_type': subj['ctor']['vine_type']}
            expect_ctor = subj['ctor']
    elif form == 'instance':
        proto = live
        ctx.probes['get_instance_fitted_prototype' if n_fit_ok else
                   'get_instance_unfitted_prototype'] += 1
    elif form == 'fresh_instance':
        proto = _fresh(subj)
    else:
        proto = live
        if subj['cls'].endswith('GaussianKDE'):
            kw = {'bw_method': 'silverman'}
            expect_ctor = {'bw_method': 'silverman'}
        elif subj['cls'].endswith('TruncatedGaussian'):
            kw = {'minimum': -99.0, 'maximum': 99.0}
            expect_ctor = dict(kw)
        elif kind == 'vine':
            kw = {'vine_type': 'direct'}
            expect_ctor = dict(kw)
        else:
            form = 'instance'
    ctx.probes['get_instance_form:' + form] += 1
    subject = 'copulas.utils.get_instance'
    cond = {'cls': zoo.short(subj['cls']), 'form': form, 'opts': _opts(subj),
            'fitted_proto': bool(n_fit_ok) and form in ('instance', 'kwargs')}
    out = outcome(get_instance, proto, **kw)
    if out[0] != 'ok':
        ctx.violate('O4_get_instance_returns_new_unfitted_object', subject,
                    'get_instance(%s) raised %s' % (form, outcome_class(out)), **cond)
        return
    inst = out[1]
    if type(inst) is not cls or inst is proto:
        ctx.violate('O4_get_instance_returns_new_unfitted_object', subject,
                    'expected a new %s, got %s%s' % (cls.__name__, type(inst).__name__,
                                                     ' (the prototype itself)' if inst is proto else ''),
                    **cond)
        return
    _check_unfitted(ctx, inst, subj, 'from get_instance(%s)' % form)
    # configured like the prototype: after fit(X) it equals fresh(ctor).fit(X)
    data = _make_data(op['data'])
    ref_subj = dict(subj)
    ref_subj['ctor'] = expect_ctor
    ref = _fresh(ref_subj)
    o1 = _fit(inst, subj, data, op['state'], 'zero', 0, False)
    o2 = _fit(ref, subj, data, op['state'], 'zero', 0, False)
    if outcome_class(o1) != outcome_class(o2):
        ctx.violate('O4_get_instance_configured_like_prototype', subject,
                    'fit outcome %s vs %s for a fresh object with the prototype\'s options'
                    % (outcome_class(o1), outcome_class(o2)), **cond)
    elif o1[0] == 'ok':
        keys = obs.diff(obs.observe(inst, kind, data), obs.observe(ref, kind, data))
        if keys:
            ctx.violate('O4_get_instance_configured_like_prototype', subject,
                        'after fit the instance differs from a fresh object with the '
                        'prototype\'s options in %s' % keys, differs=keys, **cond)
    ctx.event('get_instance', form, outcome_class(o1))
