"""C20 - Library calls never modify caller-owned inputs; plots show exactly the data.

Seam: caller-owned memory (S6) and histories (S5): the simulator allocates every argument
object, fingerprints it byte for byte, calls the public entry point, fingerprints again,
then calls a SECOND time with the very same objects under the same pinned RNG state and
compares outcome and fingerprints again."""

import copy

import numpy as np
import pandas as pd

from copsim import zoo
from copsim.core import Ctx, canon, outcome, outcome_class
from copsim.seams import Poison, fingerprint, sterile

PROPERTY = 'C20'
LEVEL = 'exploration'
TIERS = {
    'quick': {'runs': 1600, 'wall': 150, 'batch': 10},
    'thorough': {'runs': 40000, 'wall': 840, 'batch': 8},
}
RULE = ('Each run = one public entry point (fit / pdf / cdf / percent_point / sample with '
        'conditions / partial_derivative / select_copula / get_likelihood / bisect / '
        'chandrupatla / from_dict / get_instance / dataset generators / scatter_2d, scatter_3d, '
        'compare_2d, compare_3d, dist_1d, compare_1d with and without a columns list) with '
        'simulator-owned arguments in one container variant (ndarray C/F-order, strided view, '
        'int/float32 dtype, DataFrame, Series, dict, list); fixed runs enumerate every '
        '(entry, variant) pair once, random runs vary data and options. Every run re-uses the '
        'argument objects for a second call, so all are non-trivial; distinct = distinct '
        '(entry, variant, outcome) triples.')
STATE_MEASURE = 'distinct (entry point, container/dtype/layout variant, outcome class)'
STUBS = ['simulator-owned argument objects with byte-level fingerprints',
         'allocator content pinned to zeros for vine code']
ASSUMPTIONS = [
    'aliasing (a result that is a view of an input) is not a modification by the call',
    'plotly is trusted to hold in fig.data exactly the arrays it was given',
    'read-only buffers are used only as a non-gating diagnostic',
]

V1 = ['nd_f8', 'nd_i8', 'nd_f4', 'nd_strided', 'series']
V2 = ['nd_c', 'nd_f', 'nd_strided', 'df', 'df_int']
UNI = zoo.UNI_FAMILIES + [zoo.UNI_WRAPPER]

ENTRIES = {}


def entry(name, variants):
    def deco(fn):
        ENTRIES[name] = (fn, variants)
        return fn
    return deco


# ----------------------------------------------------------------------------
# argument builders
# ----------------------------------------------------------------------------

def vec(rs, n, variant, lo=-2.0, hi=5.0):
    base = rs.uniform(lo, hi, size=2 * n)
    if variant == 'nd_f8':
        return base[:n].copy()
    if variant == 'nd_i8':
        return np.round(base[:n] * 10).astype(np.int64)
    if variant == 'nd_f4':
        return base[:n].astype(np.float32)
    if variant == 'nd_strided':
        return base[::2]
    if variant == 'series':
        return pd.Series(base[:n].copy(), name='col')
    if variant == 'list':
        return [float(v) for v in base[:n]]
    raise ValueError(variant)


def mat(rs, n, d, variant, unit=False):
    big = rs.uniform(0.02, 0.98, size=(n, 2 * d)) if unit else rs.normal(size=(n, 2 * d))
    big[:, 1] += 0.6 * big[:, 0] if not unit else 0
    if unit:
        big[:, 1] = np.clip(0.5 * big[:, 0] + 0.5 * big[:, 1], 0.01, 0.99)
    if variant == 'nd_c':
        return np.ascontiguousarray(big[:, :d])
    if variant == 'nd_f':
        return np.asfortranarray(big[:, :d])
    if variant == 'nd_strided':
        if unit:
            big[:, 2] = np.clip(0.5 * big[:, 0] + 0.5 * big[:, 2], 0.01, 0.99)
        return big[:, ::2][:, :d]
    if variant == 'df':
        return pd.DataFrame(big[:, :d].copy(), columns=['c%d' % i for i in range(d)])
    if variant == 'df_int':
        return pd.DataFrame(np.round(big[:, :d] * 20).astype(np.int64),
                            columns=['c%d' % i for i in range(d)])
    raise ValueError(variant)


def _uni_model(spec, rs, n=40):
    cls = zoo.load_class(spec.get('cls', UNI[0]))
    kw = {}
    if spec.get('cls') == zoo.UNI_WRAPPER:
        kw['candidates'] = [zoo.load_class(c) for c in zoo.FAST_UNI]
    return cls(**kw)


def _fitted_uni(spec, rs):
    m = _uni_model(spec, rs)
    m.fit(rs.gamma(2.0, 1.5, size=50) + 0.5)
    return m


def _fitted_biv(spec, rs):
    cls = zoo.load_class(spec.get('biv', zoo.BIV_FAMILIES[0]))
    m = cls()
    m.fit(zoo.gen_pseudo_obs({'n': 60, 'tau': 0.4, 'seed': int(rs.randint(2**31))}))
    return m


def _fitted_gmv(spec, rs, d=3):
    from copulas.multivariate import GaussianMultivariate
    from copulas.univariate import GaussianKDE, GaussianUnivariate
    df = mat(rs, 50, d, 'df')
    m = GaussianMultivariate(distribution=GaussianKDE if spec.get('kde') else GaussianUnivariate)
    m.fit(df)
    return m, df


def _fitted_vine(spec, rs, d=3):
    from copulas.multivariate import VineCopula
    df = mat(rs, 50, d, 'df')
    m = VineCopula(spec.get('vine_type', 'regular'))
    m.fit(df)
    return m, df


# Every entry returns (callable, args (tuple), kwargs (dict), result-canonicaliser or None)

@entry('uni.fit', V1)
def _e_uni_fit(spec, rs, variant):
    m = _uni_model(spec, rs)
    x = vec(rs, 40, variant, 0.5, 6.0)
    return (lambda X: (m.fit(X), m.to_dict())[1]), (x,), {}, None


@entry('uni.fit_candidates', ['list_with_failing', 'list_plain'])
def _e_uni_fit_candidates(spec, rs, variant):
    from copsim.seams import FailingMarginal
    from copulas.univariate import Univariate
    cands = [zoo.load_class(zoo.FAST_UNI[0]), zoo.FAST_UNI[1], zoo.load_class(zoo.FAST_UNI[2])]
    if variant == 'list_with_failing':
        cands.insert(1, FailingMarginal(base=zoo.UNI_FAMILIES[2], mode='always', tag='F'))
    x = vec(rs, 40, 'nd_f8', 0.5, 6.0)

    kw = {'selection_sample_size': 15} if spec.get('selection_sample_size') else {}
    if spec.get('selection_sample_size') and variant == 'list_plain':
        big = rs.uniform(0.5, 6.0, size=(40, 3))
        x = big[:, 1]                                   # a column view of a caller's matrix

    def call(candidates, X):
        m = Univariate(candidates=candidates, **kw)
        m.fit(X)
        return type(m._instance).__name__
    return call, (cands, x), {}, None


@entry('uni.kde_weights', ['fit'])
def _e_kde_weights(spec, rs, variant):
    from copulas.univariate import GaussianKDE
    n = 30
    x = rs.gamma(2.0, 1.5, size=n)
    kind = spec.get('weights_kind', 'counts_f8')
    w = rs.randint(1, 9, size=n)
    if kind == 'counts_f8':
        w = w.astype(np.float64)          # frequency counts: do not sum to one
    elif kind == 'list':
        w = [float(v) for v in w]
    elif kind == 'normalised':
        w = w / w.sum()
    kw = {}

    def call(W, X):
        m = GaussianKDE(weights=W, **kw)
        m.fit(X)
        return [m.cdf(np.array([1.0, 2.5])), m.probability_density(np.array([1.0, 2.5]))]
    return call, (w, x), {}, None


@entry('uni.pdf', V1)
def _e_uni_pdf(spec, rs, variant):
    m = _fitted_uni(spec, rs)
    return m.probability_density, (vec(rs, 9, variant, 0.2, 7.0),), {}, None


@entry('uni.cdf', V1)
def _e_uni_cdf(spec, rs, variant):
    m = _fitted_uni(spec, rs)
    return m.cumulative_distribution, (vec(rs, 9, variant, 0.2, 7.0),), {}, None


@entry('uni.percent_point', ['nd_f8', 'nd_f4', 'nd_strided'])
def _e_uni_ppf(spec, rs, variant):
    m = _fitted_uni(spec, rs)
    return m.percent_point, (vec(rs, 9, variant, 0.01, 0.99),), {}, None


@entry('uni.log_probability_density', ['nd_f8', 'nd_strided'])
def _e_uni_logpdf(spec, rs, variant):
    m = _fitted_uni(spec, rs)
    return m.log_probability_density, (vec(rs, 9, variant, 0.2, 7.0),), {}, None


@entry('uni.from_dict', ['dict'])
def _e_uni_from_dict(spec, rs, variant):
    from copulas.univariate import Univariate
    d = _fitted_uni(spec, rs).to_dict()
    return (lambda params: Univariate.from_dict(params).to_dict()), (d,), {}, None


@entry('biv.fit', ['nd_c', 'nd_f', 'nd_strided'])
def _e_biv_fit(spec, rs, variant):
    cls = zoo.load_class(spec.get('biv', zoo.BIV_FAMILIES[0]))
    m = cls()
    X = mat(rs, 60, 2, variant, unit=True)
    return (lambda A: (m.fit(A), m.to_dict())[1]), (X,), {}, None


@entry('biv.queries', ['nd_c', 'nd_f', 'nd_strided'])
def _e_biv_queries(spec, rs, variant):
    m = _fitted_biv(spec, rs)
    X = mat(rs, 7, 2, variant, unit=True)
    if spec.get('edges', True):
        # boundary points of the unit square in some rows (exact 0 and 1 margins)
        X[0, 0] = 0.0
        X[1, 1] = 1.0
        X[2, 0], X[2, 1] = 0.0, 1.0
        X[3, 1] = 0.0

    def call(A):
        return [m.probability_density(A), m.cumulative_distribution(A), m.partial_derivative(A),
                m.log_probability_density(A)]
    return call, (X,), {}, None


@entry('biv.percent_point', ['nd_f8', 'nd_strided'])
def _e_biv_ppf(spec, rs, variant):
    m = _fitted_biv(spec, rs)
    y = vec(rs, 6, variant, 0.05, 0.95)
    v = vec(rs, 6, variant, 0.05, 0.95)
    return m.percent_point, (y, v), {}, None


@entry('biv.from_dict', ['dict'])
def _e_biv_from_dict(spec, rs, variant):
    from copulas.bivariate import Bivariate
    d = _fitted_biv(spec, rs).to_dict()
    return (lambda params: Bivariate.from_dict(params).to_dict()), (d,), {}, None


@entry('biv.generator_scalar', ['nd_f8', 'nd_strided'])
def _e_biv_generator(spec, rs, variant):
    m = _fitted_biv(spec, rs)
    t = vec(rs, 6, variant, 0.05, 0.95)
    U = vec(rs, 6, variant, 0.05, 0.95)
    V = vec(rs, 6, variant, 0.05, 0.95)

    def call(tt, uu, vv):
        return [m.generator(tt), m.partial_derivative_scalar(float(uu[0]), float(vv[0])),
                m.check_marginal(uu) if hasattr(m, 'check_marginal') else None]
    return call, (t, U, V), {}, None


@entry('select_univariate', ['nd_f8', 'nd_strided', 'series'])
def _e_select_univariate(spec, rs, variant):
    from copulas.univariate.selection import select_univariate
    cands = [zoo.load_class(c) for c in zoo.FAST_UNI]
    x = vec(rs, 40, variant, 0.5, 6.0)
    return (lambda X, C: type(select_univariate(X, C)).__name__), (x, cands), {}, None


@entry('select_copula', ['nd_c', 'nd_f', 'nd_strided'])
def _e_select(spec, rs, variant):
    from copulas.bivariate import select_copula
    X = mat(rs, 80, 2, variant, unit=True)
    return (lambda A: select_copula(A).to_dict()), (X,), {}, None


@entry('gmv.fit', V2)
def _e_gmv_fit(spec, rs, variant):
    from copulas.multivariate import GaussianMultivariate
    dist = {'c0': zoo.FAST_UNI[0], 'c1': zoo.FAST_UNI[2]}
    m = GaussianMultivariate(distribution=dist if variant.startswith('df') else zoo.FAST_UNI[0])
    X = mat(rs, 50, 3, variant)
    args = (X,)
    return (lambda A: (m.fit(A), m.to_dict())[1]), args, {'__extra__': dist}, None


@entry('gmv.pdf_cdf', ['df', 'nd_c', 'nd_f', 'series_row', 'df_permuted'])
def _e_gmv_pdf(spec, rs, variant):
    m, df = _fitted_gmv(spec, rs)
    if variant == 'series_row':
        X = df.iloc[3].copy()
    elif variant == 'df_permuted':
        X = df.iloc[:6][['c2', 'c0', 'c1']].copy()
    elif variant == 'df':
        X = df.iloc[:6].copy()
    else:
        X = mat(rs, 6, 3, variant)
    return (lambda A: [m.probability_density(A), m.cumulative_distribution(A)]), (X,), {}, None


@entry('gmv.sample_conditions', ['dict', 'series'])
def _e_gmv_cond(spec, rs, variant):
    m, df = _fitted_gmv(spec, rs)
    m.set_random_state(5)
    cond = {'c1': float(df['c1'].iloc[2]), 'c0': float(df['c0'].iloc[4])}
    if variant == 'series':
        cond = pd.Series(cond)
    state = copy.deepcopy(m.random_state)

    def call(c):
        m.random_state = copy.deepcopy(state)
        return m.sample(4, conditions=c)
    return call, (), {'c': cond}, None


@entry('gmv.from_dict', ['dict'])
def _e_gmv_from_dict(spec, rs, variant):
    from copulas.multivariate import GaussianMultivariate, Multivariate
    m, _ = _fitted_gmv(spec, rs)
    d = m.to_dict()
    cls = Multivariate if spec.get('generic') else GaussianMultivariate
    return (lambda params: cls.from_dict(params).to_dict()), (d,), {}, None


@entry('gmv.from_dict_then_refit', ['dict'])
def _e_gmv_from_dict_refit(spec, rs, variant):
    """A model rebuilt from the caller's dict is put to other use (refitted); the dict - and
    the model it came from - must be left alone."""
    from copulas.multivariate import GaussianMultivariate
    m, df = _fitted_gmv(spec, rs)
    d = m.to_dict()
    other = mat(rs, 40, 2, 'df')
    other.columns = ['p', 'q']

    def call(params):
        clone = GaussianMultivariate.from_dict(params)
        clone.fit(other)
        m.set_random_state(3)
        return [clone.to_dict()['columns'], m.sample(2), m.to_dict()['columns']]
    return call, (d,), {}, None


@entry('uni.from_dict_then_refit', ['dict'])
def _e_uni_from_dict_refit(spec, rs, variant):
    from copulas.univariate import Univariate
    m = _fitted_uni(spec, rs)
    d = m.to_dict()
    x2 = rs.normal(size=30) * 3 + 40

    def call(params):
        clone = Univariate.from_dict(params)
        clone.fit(x2)
        return [m.to_dict(), clone.to_dict()['type']]
    return call, (d,), {}, None


@entry('vine.from_dict_then_refit', ['dict'])
def _e_vine_from_dict_refit(spec, rs, variant):
    from copulas.multivariate import VineCopula
    m, _ = _fitted_vine(spec, rs, 3)
    d = m.to_dict()
    other = mat(rs, 40, 3, 'df')

    def call(params):
        clone = VineCopula.from_dict(params)
        clone.fit(other)
        return [len(clone.trees), m.get_likelihood(np.array([[0.3, 0.4, 0.6]]))]
    return call, (d,), {}, None


@entry('vine.fit', ['df', 'df_int'])
def _e_vine_fit(spec, rs, variant):
    from copulas.multivariate import VineCopula
    m = VineCopula(spec.get('vine_type', 'regular'))
    X = mat(rs, 50, 4, variant)
    return (lambda A: (m.fit(A), m.to_dict())[1]), (X,), {}, None


@entry('vine.get_likelihood', ['nd_c', 'nd_f'])
def _e_vine_lik(spec, rs, variant):
    m, _ = _fitted_vine(spec, rs, 4)
    u = mat(rs, 1, 4, variant, unit=True)
    return m.get_likelihood, (u,), {}, None


@entry('vine.from_dict', ['dict'])
def _e_vine_from_dict(spec, rs, variant):
    from copulas.multivariate import VineCopula
    m, _ = _fitted_vine(spec, rs, 3)
    d = m.to_dict()
    return (lambda params: VineCopula.from_dict(params).to_dict()), (d,), {}, None


def _slopes(spec, k):
    """Increasing in every lane, decreasing in every lane (a survival function), or mixed: the
    root finders only require opposite signs at the two ends of a bracket."""
    how = spec.get('slope', 'up')
    if how == 'down':
        return -np.ones(k)
    if how == 'mixed':
        return np.where(np.arange(k) % 2 == 0, 1.0, -1.0)
    return np.ones(k)


def _roots_at_ends(spec, roots, lo, hi):
    """Brackets one end of which already is the root, exactly (inverting a cdf at 0 or 1 on a
    bracket that starts at the end of the support)."""
    where = spec.get('root_at')
    if where in ('lower', 'both'):
        lo[0] = roots[0]
        lo[2] = roots[2]
    if where in ('upper', 'both'):
        hi[1] = roots[1]
        hi[3] = roots[3]


@entry('bisect', ['nd_f8', 'nd_strided'])
def _e_bisect(spec, rs, variant):
    from copulas.optimize import bisect
    k = 5
    roots = rs.uniform(-1, 1, size=k)
    lo = vec(rs, k, variant, -5.0, -2.0)
    hi = vec(rs, k, variant, 2.0, 5.0)
    _roots_at_ends(spec, roots, lo, hi)
    sgn = _slopes(spec, k)
    return (lambda a, b: bisect(lambda x: sgn * ((x - roots) ** 3 + (x - roots)), a, b)), \
        (lo, hi), {}, None


@entry('chandrupatla', ['nd_f8', 'nd_strided'])
def _e_chandrupatla(spec, rs, variant):
    from copulas.optimize import chandrupatla
    k = 5
    roots = rs.uniform(-1, 1, size=k)
    lo = vec(rs, k, variant, -5.0, -2.0)
    hi = vec(rs, k, variant, 2.0, 5.0)
    _roots_at_ends(spec, roots, lo, hi)
    sgn = _slopes(spec, k)
    return (lambda a, b: chandrupatla(lambda x: sgn * np.tanh(x - roots), a, b)), \
        (lo, hi), {}, None


@entry('get_instance', ['proto_kwargs'])
def _e_get_instance(spec, rs, variant):
    from copulas.univariate import GaussianKDE
    from copulas.utils import get_instance
    proto = GaussianKDE(sample_size=7, bw_method='silverman')
    kw = {'bw_method': 'scott', 'weights': None}
    return (lambda p, k: sorted(vars(get_instance(p, **k)).keys())), (proto, kw), {}, None


@entry('datasets', ['ints'])
def _e_datasets(spec, rs, variant):
    from copulas import datasets
    name = spec.get('dataset', 'sample_trivariate_xyz')
    return getattr(datasets, name), (int(spec.get('size', 12)), int(spec.get('dseed', 3))), {}, None


def _viz_frames(rs, d, n=12, index='range', ties=False, int_real=False, labels='str',
                own_data_column=False, with_inf=False):
    # 'int': the labels of a frame made from an ndarray (0, 1, 2, ...)
    names = ['a', 'b', 'c', 'e'][:d] if labels != 'int' else list(range(d))
    if own_data_column and labels != 'int' and d >= 3:
        # the caller's tables have a column of their own that happens to be called 'Data'
        # (it is not among the requested columns)
        names = ['Data'] + names[1:]
    real = pd.DataFrame(rs.normal(size=(n, d)), columns=names)
    synth = pd.DataFrame(rs.normal(size=(n + 3, d)) + 1.0, columns=names)
    if int_real:
        # the real table holds integer columns (ages, counts), the synthetic one floats
        real = (real * 10).round().astype('int64')
        synth = synth * 10 + 0.37
    if ties:
        # integer-like data with repeated rows and rows that tie on some columns only
        real = (real * 2).round()
        synth = (synth * 2).round()
        real.iloc[1] = real.iloc[0]
        synth.iloc[2] = synth.iloc[0]
    if with_inf:
        # quantiles at probability 0 and 1 of an unbounded marginal are -inf / +inf: such rows
        # are rows of the table like any other
        real.iloc[0, real.shape[1] - 1] = np.inf
        synth.iloc[1, synth.shape[1] - 1] = -np.inf
    if index == 'filtered':
        # what a caller gets from data[data.x > 0]: a non-contiguous index
        real = real.iloc[::2]
        synth = synth.iloc[1::3]
    elif index == 'shifted':
        real.index = real.index + 100
        synth.index = synth.index + 5
    elif index == 'labels':
        real.index = ['r%d' % i for i in range(len(real))]
        synth.index = ['s%d' % i for i in range(len(synth))]
    return real, synth


def _points(fig, dims):
    out = {}
    for tr in fig.data:
        name = str(tr.name)
        key = 'Synthetic' if 'Synthetic' in name else ('Real' if 'Real' in name else name)
        coords = [np.asarray(getattr(tr, ax), dtype=float) for ax in 'xyz'[:dims]]
        pts = sorted(tuple(float(c[i]) for c in coords) for i in range(len(coords[0])))
        out.setdefault(key, []).extend(pts)
    return {k: sorted(v) for k, v in out.items()}


def _rows(df, cols):
    return sorted(tuple(float(v) for v in row) for row in df[cols].to_numpy())


def _pick_columns(spec, frame, dims):
    """The requested columns: the frame's last ones, those reversed, or any of the frame's
    labels in any order."""
    cols = list(frame.columns[-dims:])
    if spec.get('own_data_column') and len(frame.columns) > dims:
        return cols[::-1] if spec.get('reverse_columns') else cols    # never the 'Data' column
    if spec.get('reverse_columns'):
        cols = cols[::-1]                 # requested order differs from the frame's order
    pick = spec.get('col_pick')
    if pick is not None:
        import itertools
        perms = list(itertools.permutations(list(frame.columns), dims))
        cols = list(perms[pick % len(perms)])
    return cols


@entry('viz.scatter', ['2d_columns', '2d_nocolumns', '3d_columns', '3d_nocolumns'])
def _e_scatter(spec, rs, variant):
    from copulas import visualization as viz
    dims = 2 if variant.startswith('2d') else 3
    with_cols = variant.endswith('_columns')
    real, _ = _viz_frames(rs, dims + (1 if with_cols else 0), index=spec.get('index', 'range'),
                          ties=spec.get('ties', False), labels=spec.get('labels', 'str'),
                          own_data_column=spec.get('own_data_column', False) and with_cols,
                          with_inf=spec.get('with_inf', False))
    cols = _pick_columns(spec, real, dims) if with_cols else None
    fn = viz.scatter_2d if dims == 2 else viz.scatter_3d
    want_cols = list(cols) if cols else list(real.columns[:dims])

    def canon_fig(fig):
        return {'points': _points(fig, dims), 'want': {'Real': _rows(real, want_cols)}}
    return (lambda data, columns: fn(data, columns=columns)), (real, cols), {}, canon_fig


@entry('viz.compare', ['2d_columns', '2d_nocolumns', '3d_columns', '3d_nocolumns'])
def _e_compare(spec, rs, variant):
    from copulas import visualization as viz
    dims = 2 if variant.startswith('2d') else 3
    with_cols = variant.endswith('_columns')
    real, synth = _viz_frames(rs, dims + (1 if with_cols else 0),
                              index=spec.get('index', 'range'), ties=spec.get('ties', False),
                              int_real=spec.get('int_real', False),
                              labels=spec.get('labels', 'str'),
                              own_data_column=spec.get('own_data_column', False) and with_cols,
                          with_inf=spec.get('with_inf', False))
    cols = _pick_columns(spec, real, dims) if with_cols else None
    fn = viz.compare_2d if dims == 2 else viz.compare_3d
    want_cols = list(cols) if cols else list(real.columns[:dims])

    def canon_fig(fig):
        return {'points': _points(fig, dims),
                'want': {'Real': _rows(real, want_cols), 'Synthetic': _rows(synth, want_cols)}}
    return (lambda r, s, columns: fn(r, s, columns=columns)), (real, synth, cols), {}, canon_fig


@entry('viz.1d', ['dist_series', 'dist_df', 'compare_series'])
def _e_viz1d(spec, rs, variant):
    from copulas import visualization as viz
    real, synth = _viz_frames(rs, 1)
    if variant == 'dist_series':
        return viz.dist_1d, (real['a'],), {}, lambda fig: 'figure'
    if variant == 'dist_df':
        return viz.dist_1d, (real,), {}, lambda fig: 'figure'
    return viz.compare_1d, (real['a'], synth['a']), {}, lambda fig: 'figure'


# ----------------------------------------------------------------------------
# generation / execution
# ----------------------------------------------------------------------------

def _rand_spec(rng):
    return {'cls': rng.choice(UNI), 'biv': rng.choice(zoo.BIV_FAMILIES),
            'vine_type': rng.choice(zoo.VINE_TYPES), 'kde': rng.random() < 0.4,
            'generic': rng.random() < 0.5, 'edges': rng.random() < 0.6,
            'index': rng.choice(['range', 'filtered', 'shifted', 'labels']),
            'reverse_columns': rng.random() < 0.5, 'ties': rng.random() < 0.4,
            'int_real': rng.random() < 0.3, 'selection_sample_size': rng.random() < 0.5,
            'dataset': rng.choice(['sample_bivariate_age_income', 'sample_trivariate_xyz',
                                   'sample_univariate_bimodal', 'sample_univariates',
                                   'sample_univariate_degenerate']),
            'size': rng.choice([1, 5, 30]), 'dseed': rng.randrange(1000),
            'root_at': rng.choice([None, 'lower', 'upper', 'both']),
            'labels': rng.choice(['str', 'int']),
            'col_pick': rng.choice([None, rng.randrange(24)]),
            'own_data_column': rng.random() < 0.3,
            'slope': rng.choice(['up', 'down', 'mixed']), 'with_inf': rng.random() < 0.25,
            'weights_kind': rng.choice(['counts_f8', 'counts_i8', 'list', 'normalised'])}


def generate(rng, tier, idx):
    name = rng.choice(sorted(ENTRIES))
    variant = rng.choice(ENTRIES[name][1])
    return {'entry': name, 'variant': variant, 'spec': _rand_spec(rng),
            'seed': rng.randrange(2**31), 'readonly': rng.random() < 0.3, 'ops': []}


def fixed_runs(tier):
    runs = []
    for name in sorted(ENTRIES):
        for variant in ENTRIES[name][1]:
            runs.append({'entry': name, 'variant': variant,
                         'spec': {'cls': UNI[(len(runs)) % len(UNI)],
                                  'biv': zoo.BIV_FAMILIES[len(runs) % 3],
                                  'vine_type': zoo.VINE_TYPES[len(runs) % 3],
                                  'index': ['range', 'filtered', 'shifted', 'labels'][len(runs) % 4],
                                  'reverse_columns': len(runs) % 2 == 1,
                                  'ties': len(runs) % 3 == 0, 'int_real': len(runs) % 5 == 0,
                                  'selection_sample_size': len(runs) % 2 == 0,
                                  'root_at': [None, 'lower', 'upper', 'both'][len(runs) % 4],
                                  'labels': ['str', 'int'][(len(runs) // 2) % 2],
                                  'col_pick': [None, 1, 2, 3, 5][len(runs) % 5],
                                  'own_data_column': len(runs) % 3 == 1,
                                  'slope': ['up', 'down', 'mixed'][(len(runs) // 2) % 3],
                                  'with_inf': len(runs) % 4 == 2,
                                  'weights_kind': ['counts_f8', 'counts_i8', 'list',
                                                   'normalised'][len(runs) % 4]},
                         'seed': 100 + len(runs), 'readonly': False, 'ops': []})
    return runs


def _freeze(obj):
    """Diagnostic configuration: make every ndarray reachable from obj read-only."""
    n = 0
    if isinstance(obj, np.ndarray):
        try:
            obj.flags.writeable = False
            n += 1
        except ValueError:
            pass
    elif isinstance(obj, (list, tuple)):
        n += sum(_freeze(o) for o in obj)
    elif isinstance(obj, dict):
        n += sum(_freeze(o) for o in obj.values())
    return n


def execute(run):
    ctx = Ctx(run)
    name, variant = run['entry'], run['variant']
    builder, _ = ENTRIES[name]
    rs = np.random.RandomState(run['seed'] % (2**32))
    with sterile(run['seed'] + 1), Poison('zero'):
        built = outcome(builder, run['spec'], rs, variant)
    if built[0] != 'ok':
        ctx.probes['builder_failed:' + name + ':' + outcome_class(built)] += 1
        ctx.event('build', name, variant, outcome_class(built))
        return ctx.result()
    fn, args, kwargs, canon_result = built[1]
    extra = kwargs.pop('__extra__', None)
    owned = {'args': args, 'kwargs': kwargs, 'extra': extra}
    subject = 'copulas:' + name
    cond = {'entry': name, 'variant': variant, 'cls': zoo.short(run['spec'].get('cls', ''))
            if name.startswith('uni.') else None}
    fp0 = fingerprint(owned)
    outs = []
    fps = []
    for k in range(2):
        with sterile(run['seed'] + 2), Poison('zero'):
            o = outcome(fn, *args, **kwargs)
            if o[0] == 'ok' and canon_result is not None:
                o = outcome(canon_result, o[1])
        outs.append(o)
        fps.append(fingerprint(owned))
        ctx.stats['calls'] += 1
    ctx.nontrivial = True
    oc = [outcome_class(o) for o in outs]
    if fps[0] != fp0:
        ctx.violate('inputs_unmodified', subject,
                    'argument objects changed across the first call (%s, outcome %s): %s'
                    % (variant, oc[0], _what_changed(fp0, fps[0])), call=1, **cond)
    elif fps[1] != fp0:
        ctx.violate('inputs_unmodified', subject,
                    'argument objects changed across the second call (%s, outcome %s): %s'
                    % (variant, oc[1], _what_changed(fp0, fps[1])), call=2, **cond)
    if oc[0] != oc[1] or (outs[0][0] == 'ok' and canon(outs[0][1]) != canon(outs[1][1])):
        ctx.violate('second_identical_call_same_result', subject,
                    'first call: %s, second call with the same argument objects: %s'
                    % (oc[0], oc[1] if oc[0] != oc[1] else 'a different result'), **cond)
    if name.startswith('viz.') and outs[0][0] == 'ok' and isinstance(outs[0][1], dict):
        pts, want = outs[0][1]['points'], outs[0][1]['want']
        for label in sorted(set(pts) | set(want)):
            if pts.get(label) != want.get(label):
                ctx.violate('figure_contains_every_row_once_under_its_label', subject,
                            'label %r: %d plotted points vs %d rows; first difference %r'
                            % (label, len(pts.get(label, [])), len(want.get(label, [])),
                               _first_diff(pts.get(label, []), want.get(label, []))),
                            label=label, **cond)
    # diagnostic (not gated): the same call on read-only buffers
    if run.get('readonly'):
        with sterile(run['seed'] + 1), Poison('zero'):
            rs2 = np.random.RandomState(run['seed'] % (2**32))
            b2 = outcome(builder, run['spec'], rs2, variant)
        if b2[0] == 'ok':
            fn2, args2, kwargs2, _c = b2[1]
            kwargs2.pop('__extra__', None)
            if _freeze([args2, kwargs2]):
                with sterile(run['seed'] + 2), Poison('zero'):
                    o = outcome(fn2, *args2, **kwargs2)
                if o[0] == 'exc' and 'read-only' in str(o[1]):
                    ctx.probes['readonly_diagnostic_tripped:' + name] += 1
                ctx.probes['readonly_diagnostic_run'] += 1
    who = ''
    if name.startswith('uni.'):
        who = zoo.short(run['spec'].get('cls', ''))
    elif name.startswith('biv.') or name == 'select_copula':
        who = zoo.short(run['spec'].get('biv', ''))
    elif name.startswith('vine.'):
        who = run['spec'].get('vine_type', '')
    elif name.startswith('viz.'):
        who = run['spec'].get('index', 'range')
    st = '|'.join([name, who, variant, oc[0]])
    ctx.states.add(st)
    ctx.shape.append(st)
    ctx.event(name, variant, oc, outs[0][1] if outs[0][0] == 'ok' else None)
    return ctx.result()


def _what_changed(a, b, path='args'):
    if a == b:
        return ''
    if isinstance(a, tuple) and isinstance(b, tuple) and len(a) == len(b):
        for i, (x, y) in enumerate(zip(a, b)):
            if x != y:
                sub = _what_changed(x, y, '%s[%d]' % (path, i))
                if sub:
                    return sub
    return '%s: %r -> %r' % (path, str(a)[:80], str(b)[:80])


def _first_diff(a, b):
    for x, y in zip(a, b):
        if x != y:
            return (x, y)
    return ('length', len(a), len(b))
