"""Shared pieces of the Gaussian-copula checks (C01, C12): marginal configurations in every
accepted form, model building, and the exact draw-refinement oracle."""

import numpy as np
import pandas as pd
from scipy import stats

from copsim import zoo
from copsim.core import outcome

UNI = 'copulas.univariate.'
FAM = {
    'gaussian': UNI + 'gaussian.GaussianUnivariate',
    'uniform': UNI + 'uniform.UniformUnivariate',
    'kde': UNI + 'gaussian_kde.GaussianKDE',
    'beta': UNI + 'beta.BetaUnivariate',
    'gamma': UNI + 'gamma.GammaUnivariate',
    'student': UNI + 'student_t.StudentTUnivariate',
    'loglaplace': UNI + 'log_laplace.LogLaplace',
    'truncated': UNI + 'truncated_gaussian.TruncatedGaussian',
}
# public aliases exported by copulas.univariate (names users actually write)
PUBLIC = {k: UNI + v.rsplit('.', 1)[1] for k, v in FAM.items()}
EPS32 = float(np.finfo(np.float32).eps)


def rand_family(rng, fast=False):
    pool = ['gaussian', 'uniform', 'kde', 'truncated'] if fast else list(FAM)
    return rng.choice(pool)


def rand_config(rng, names, allow_default=True):
    """Marginal configuration in one of the accepted forms (JSON spec for zoo.decode_ctor)."""
    forms = ['class', 'name', 'instance', 'dict', 'dict']
    if allow_default:
        forms.append('default')
    form = rng.choice(forms)
    if form == 'default':
        return {'form': 'default', 'ctor': {}}
    if form == 'class':
        return {'form': 'class', 'ctor': {'distribution': {'__cls__': FAM[rand_family(rng)]}}}
    if form == 'name':
        table = PUBLIC if rng.random() < 0.5 else FAM
        return {'form': 'name', 'ctor': {'distribution': table[rand_family(rng)]}}
    if form == 'instance':
        return {'form': 'instance', 'ctor': {'distribution': _rand_instance(rng)}}
    mapping = {}
    for nm in names:
        if rng.random() < 0.7:
            r = rng.random()
            if r < 0.4:
                mapping[str(nm)] = {'__cls__': FAM[rand_family(rng)]}
            elif r < 0.8:
                mapping[str(nm)] = FAM[rand_family(rng)]
            else:
                mapping[str(nm)] = _rand_instance(rng)
    if not allow_default or len(mapping) < len(names) - 1:
        # keep at most one unnamed column (it falls back to the slow default selection)
        for nm in names:
            if str(nm) not in mapping and (not allow_default or rng.random() < 0.8):
                mapping[str(nm)] = {'__cls__': FAM[rand_family(rng, fast=True)]}
    return {'form': 'dict', 'ctor': {'distribution': {'__map__': mapping}}}


def _rand_instance(rng):
    r = rng.random()
    if r < 0.3:
        return {'__inst__': FAM['kde'], 'ctor': {'bw_method': rng.choice(['scott', 'silverman'])}}
    if r < 0.5:
        return {'__inst__': FAM['kde'], 'ctor': {'sample_size': rng.choice([30, 80])}}
    if r < 0.7:
        return {'__inst__': UNI + 'base.Univariate', 'ctor': {
            'candidates': [{'__cls__': FAM['gaussian']}, {'__cls__': FAM['uniform']},
                           {'__cls__': FAM['kde']}][:rng.randint(1, 3)]}}
    if r < 0.85:
        return {'__inst__': FAM['gaussian'], 'ctor': {}}
    return {'__inst__': UNI + 'base.Univariate', 'ctor': {
        'parametric': {'__enum__': [UNI + 'base', 'ParametricType', 'PARAMETRIC']},
        'bounded': {'__enum__': [UNI + 'base', 'BoundedType', 'BOUNDED']}}}


def fix_dict_keys(ctor, names):
    """JSON turned int column names into strings: map them back."""
    ctor = zoo.decode_ctor(ctor)
    dist = ctor.get('distribution')
    if isinstance(dist, dict):
        by_str = {str(n): n for n in names}
        ctor['distribution'] = {by_str.get(k, k): v for k, v in dist.items()}
    return ctor


def build_fitted(run):
    """Return (model or None, training frame, true R, fit outcome)."""
    from copulas.multivariate import GaussianMultivariate
    df, R = zoo.gen_table(run['table'])
    train = df
    if run.get('as_array'):
        train = df.to_numpy()
        df = pd.DataFrame(train)
    ctor = fix_dict_keys(run['config']['ctor'], list(df.columns))
    seed = zoo.make_seed(run.get('seed'))
    if seed is not None:
        ctor['random_state'] = seed
    with _fit_state(run.get('fit_state', 1)):
        model = GaussianMultivariate(**ctor)
        out = outcome(model.fit, train)
    return model, df, R, out


def _fit_state(seed):
    from copsim.seams import sterile
    return sterile(seed)


def is_constant_uni(uni):
    return getattr(uni, '_constant_value', None) is not None or (
        getattr(uni, '_instance', None) is not None
        and getattr(uni._instance, '_constant_value', None) is not None)


def monotone_in(x, z):
    """True iff x is a strictly monotone increasing function of z on these rows (ties in x
    allowed only where z ties too - which has probability 0 for continuous z)."""
    order = np.argsort(z, kind='stable')
    xs = x[order]
    return bool(np.all(np.diff(xs) >= 0)) and (len(np.unique(xs)) > 1)


def refine_columns(model, out_df, Z, zcols, skip=()):
    """Exact oracle: every non-constant, non-skipped output column equals the
    marginal-inverse transform of the recorded draw column with the same name.
    Z: (n, k) recorded draw, zcols: the column labels of Z.  Returns list of problems."""
    problems = []
    zidx = {c: i for i, c in enumerate(zcols)}
    for name, uni in zip(model.columns, model.univariates):
        if name in skip or name not in zidx:
            continue
        x = out_df[name].to_numpy()
        if is_constant_uni(uni):
            continue
        u = stats.norm.cdf(Z[:, zidx[name]])
        ref = np.asarray(uni.percent_point(u), dtype=float)
        ok = np.isclose(x, ref, rtol=1e-9, atol=1e-12, equal_nan=False) | (
            np.isinf(ref) & (x == ref))
        if not ok.all():
            i = int(np.argmin(ok))
            problems.append((name, i, float(x[i]), float(ref[i])))
    return problems


def marginal_consistent(uni):
    """The band oracles use cdf and percent_point of the fitted marginal as a pair; they are
    only applicable when the pair is numerically self-consistent (C03 is assumed, not decided,
    by C01/C12): cdf(percent_point(p)) == p on a probability grid."""
    p = np.linspace(0.02, 0.98, 25)
    try:
        back = np.asarray(uni.cdf(np.asarray(uni.percent_point(p), dtype=float)), dtype=float)
    except Exception:
        return False
    return bool(np.all(np.isfinite(back)) and np.max(np.abs(back - p)) <= 1e-6)
