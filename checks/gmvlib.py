"""Shared pieces of the Gaussian-copula checks (C01, C12): marginal configurations in every
accepted form, model building, and the exact draw-refinement oracle."""

import numpy as np
import pandas as pd
from scipy import stats

from copsim import zoo
from copsim.core import outcome

UNI = 'copulas.univariate.'
FAM = {
    'gaussian': UNI + 'gaussian.GaussianUnivariate',
    'uniform': UNI + 'uniform.UniformUnivariate',
    'kde': UNI + 'gaussian_kde.GaussianKDE',
    'beta': UNI + 'beta.BetaUnivariate',
    'gamma': UNI + 'gamma.GammaUnivariate',
    'student': UNI + 'student_t.StudentTUnivariate',
    'loglaplace': UNI + 'log_laplace.LogLaplace',
    'truncated': UNI + 'truncated_gaussian.TruncatedGaussian',
}
# public aliases exported by copulas.univariate (names users actually write)
PUBLIC = {k: UNI + v.rsplit('.', 1)[1] for k, v in FAM.items()}
EPS32 = float(np.finfo(np.float32).eps)


def rand_family(rng, fast=False):
    pool = ['gaussian', 'uniform', 'kde', 'truncated'] if fast else list(FAM)
    return rng.choice(pool)


def rand_config(rng, names, allow_default=True):
    """Marginal configuration in one of the accepted forms (JSON spec for zoo.decode_ctor)."""
    forms = ['class', 'name', 'instance', 'dict', 'dict']
    if allow_default:
        forms.append('default')
    form = rng.choice(forms)
    if form == 'default':
        return {'form': 'default', 'ctor': {}}
    if form == 'class':
        return {'form': 'class', 'ctor': {'distribution': {'__cls__': FAM[rand_family(rng)]}}}
    if form == 'name':
        table = PUBLIC if rng.random() < 0.5 else FAM
        return {'form': 'name', 'ctor': {'distribution': table[rand_family(rng)]}}
    if form == 'instance':
        return {'form': 'instance', 'ctor': {'distribution': _rand_instance(rng)}}
    mapping = {}
    for nm in names:
        if rng.random() < 0.7:
            r = rng.random()
            if r < 0.4:
                mapping[str(nm)] = {'__cls__': FAM[rand_family(rng)]}
            elif r < 0.8:
                mapping[str(nm)] = FAM[rand_family(rng)]
            else:
                mapping[str(nm)] = _rand_instance(rng)
    if not allow_default or len(mapping) < len(names) - 1:
        # keep at most one unnamed column (it falls back to the slow default selection)
        for nm in names:
            if str(nm) not in mapping and (not allow_default or rng.random() < 0.8):
                mapping[str(nm)] = {'__cls__': FAM[rand_family(rng, fast=True)]}
    return {'form': 'dict', 'ctor': {'distribution': {
        '__map__': mapping, '__mapkind__': zoo.mapkind_for(sorted(mapping), len(names))}}}


def _rand_instance(rng):
    r = rng.random()
    if r < 0.08:
        # one-sided truncation: only one of the two bounds is configured, the other one is
        # taken from the data
        return {'__inst__': FAM['truncated'],
                'ctor': rng.choice([{'minimum': -1e6}, {'maximum': 1e6}])}
    if r < 0.16:
        # weighted kernel estimate; the number of weights is the number of training rows
        # (filled in when the table is built)
        return {'__inst__': FAM['kde'], 'ctor': {'weights': {
            '__gen__': 'weights', 'seed': rng.randrange(1000),
            'kind': rng.choice(['tilt', 'sparse', 'int'])}}}
    if r < 0.3:
        return {'__inst__': FAM['kde'], 'ctor': {'bw_method': rng.choice(['scott', 'silverman'])}}
    if r < 0.5:
        return {'__inst__': FAM['kde'], 'ctor': {'sample_size': rng.choice([30, 80])}}
    if r < 0.7:
        return {'__inst__': UNI + 'base.Univariate', 'ctor': {
            'candidates': [{'__cls__': FAM['gaussian']}, {'__cls__': FAM['uniform']},
                           {'__cls__': FAM['kde']}][:rng.randint(1, 3)]}}
    if r < 0.85:
        return {'__inst__': FAM['gaussian'], 'ctor': {}}
    return {'__inst__': UNI + 'base.Univariate', 'ctor': {
        'parametric': {'__enum__': [UNI + 'base', 'ParametricType', 'PARAMETRIC']},
        'bounded': {'__enum__': [UNI + 'base', 'BoundedType', 'BOUNDED']}}}


def _fill_rows(spec, n_rows):
    """Generated per-row options (kernel weights) get the number of training rows."""
    if isinstance(spec, dict):
        out = {k: _fill_rows(v, n_rows) for k, v in spec.items()}
        if out.get('__gen__') == 'weights' and 'n' not in out:
            out['n'] = n_rows
        return out
    if isinstance(spec, list):
        return [_fill_rows(v, n_rows) for v in spec]
    return spec


def fix_dict_keys(ctor, names, n_rows=None):
    """JSON turned int column names into strings: map them back (keeping the caller's mapping
    type)."""
    ctor = zoo.decode_ctor(_fill_rows(ctor, n_rows))
    dist = ctor.get('distribution')
    if isinstance(dist, dict):
        by_str = {str(n): n for n in names}
        ctor['distribution'] = type(dist)((by_str.get(k, k), v) for k, v in dist.items())
    return ctor


def kde_reference_cdf(inst, xs):
    """The law of a fitted kernel estimate, from its PARAMETERS alone: the weighted mixture
    sum_i w_i Phi((x - x_i) / h) over the stored dataset, h and w_i taken from a scipy kernel
    estimate built here from (dataset, bw_method, weights) - not from the instance's cdf."""
    from scipy.stats import gaussian_kde
    params = inst.to_dict()
    data = np.asarray(params['dataset'], dtype=float)
    w = params.get('weights')
    ref = gaussian_kde(data, bw_method=params.get('bw_method'),
                       weights=None if w is None else np.asarray(w, dtype=float))
    h = float(np.sqrt(ref.covariance[0, 0]))
    xs = np.asarray(xs, dtype=float)
    out = np.empty(len(xs))
    for i in range(0, len(xs), 256):
        blk = xs[i:i + 256]
        out[i:i + 256] = stats.norm.cdf((blk[:, None] - data[None, :]) / h).dot(ref.weights)
    return out


def build_fitted(run):
    """Return (model or None, training frame, true R, fit outcome)."""
    from copulas.multivariate import GaussianMultivariate
    df, R = zoo.gen_table(run['table'])
    train = df
    if run.get('as_array'):
        train = df.to_numpy()
        df = pd.DataFrame(train)
    ctor = fix_dict_keys(run['config']['ctor'], list(df.columns), n_rows=len(df))
    seed = zoo.make_seed(run.get('seed'))
    if seed is not None:
        ctor['random_state'] = seed
    with _fit_state(run.get('fit_state', 1)):
        model = GaussianMultivariate(**ctor)
        out = outcome(model.fit, train)
    return model, df, R, out


def _fit_state(seed):
    from copsim.seams import sterile
    return sterile(seed)


def is_constant_uni(uni):
    return getattr(uni, '_constant_value', None) is not None or (
        getattr(uni, '_instance', None) is not None
        and getattr(uni._instance, '_constant_value', None) is not None)


def monotone_in(x, z):
    """True iff x is a strictly monotone increasing function of z on these rows (ties in x
    allowed only where z ties too - which has probability 0 for continuous z)."""
    order = np.argsort(z, kind='stable')
    xs = x[order]
    return bool(np.all(np.diff(xs) >= 0)) and (len(np.unique(xs)) > 1)


def refine_columns(model, out_df, Z, zcols, skip=()):
    """Exact oracle: every non-constant, non-skipped output column equals the
    marginal-inverse transform of the recorded draw column with the same name.
    Z: (n, k) recorded draw, zcols: the column labels of Z.  Returns list of problems."""
    problems = []
    zidx = {c: i for i, c in enumerate(zcols)}
    for name, uni in zip(model.columns, model.univariates):
        if name in skip or name not in zidx:
            continue
        x = out_df[name].to_numpy()
        if is_constant_uni(uni):
            continue
        u = stats.norm.cdf(Z[:, zidx[name]])
        ref = np.asarray(uni.percent_point(u), dtype=float)
        ok = np.isclose(x, ref, rtol=1e-9, atol=1e-12, equal_nan=False) | (
            np.isinf(ref) & (x == ref))
        if not ok.all():
            i = int(np.argmin(ok))
            problems.append((name, i, float(x[i]), float(ref[i])))
    return problems


def marginal_consistent(uni):
    """The band oracles use cdf and percent_point of the fitted marginal as a pair; they are
    only applicable when the pair is numerically self-consistent (C03 is assumed, not decided,
    by C01/C12): cdf(percent_point(p)) == p on a probability grid."""
    p = np.linspace(0.02, 0.98, 25)
    try:
        back = np.asarray(uni.cdf(np.asarray(uni.percent_point(p), dtype=float)), dtype=float)
    except Exception:
        return False
    return bool(np.all(np.isfinite(back)) and np.max(np.abs(back - p)) <= 1e-6)
