"""Shared pieces of the vine checks (C16, C17): table generation with controlled |tau|
orderings and ties, fitting under a simulator-chosen allocator content, and the independent
reference of the pair-copula data flow."""

import numpy as np
import pandas as pd

from copsim import refs, zoo
from copsim.core import outcome
from copsim.core import derive_seed
from copsim.seams import Poison, sterile

PATTERNS = ('random', 'chain', 'star', 'equi', 'indep', 'neg', 'weak', 'block')
EPS32 = float(np.finfo(np.float32).eps)


def rand_vine_table(rng, d_lo, d_hi, n_lo=60, n_hi=300):
    d = rng.randint(d_lo, d_hi)
    spec = {'kind': 'table', 'n': rng.randint(n_lo, n_hi), 'seed': rng.randrange(2**31),
            'margs': [rng.choice(['normal', 'gamma', 'beta', 'uniform', 'lognormal'])
                      for _ in range(d)],
            'pattern': rng.choice(PATTERNS)}
    r = rng.random()
    if r < 0.12:
        # columns of different kinds: some binary / few-valued (heavy ties), some continuous -
        # the tie correction of Kendall's tau then matters for the ORDER of the pairwise |tau|
        spec['levels'] = [rng.choice([None, None, 2, 3, 5]) for _ in range(d)]
        if all(v is None for v in spec['levels']):
            spec['levels'][rng.randrange(d)] = 2
    elif r < 0.24:
        spec['round'] = rng.choice([1, 2])          # ties in the data
    elif r < 0.34 and d >= 3:
        spec['tie_cols'] = True                     # exactly tied pairwise tau values
    h = derive_seed('offset', spec['seed'], d)
    if h % 8 == 0:
        # a column whose magnitude dwarfs its spread (epoch seconds within a minute, large
        # ids): ranks survive in float64, not in anything narrower
        spec['affine'] = [[0.0, 1.0]] * d
        spec['affine'][(h // 8) % d] = [1.7e9, 30.0]
    elif h % 8 == 1:
        # a column in very small units
        spec['affine'] = [[0.0, 1.0]] * d
        spec['affine'][(h // 8) % d] = [2e-9, 1e-9]
    return zoo.with_index(spec)


def make_table(spec):
    sp = dict(spec)
    sp.pop('index', None)                           # applied last, see the return
    pattern = sp.get('pattern')
    if pattern == 'block':
        sp['pattern'] = 'random'
    df, R = zoo.gen_table(sp)
    if pattern == 'block' and df.shape[1] >= 4:
        # two independent blocks
        rs = np.random.RandomState(spec['seed'] % (2**32))
        half = df.shape[1] // 2
        perm = rs.permutation(len(df))
        for c in df.columns[half:]:
            df[c] = df[c].to_numpy()[perm]
    if spec.get('collinear'):
        rs = np.random.RandomState((spec['seed'] + 11) % (2**32))
        z = rs.normal(size=len(df))
        for c in df.columns:
            df[c] = z + spec['collinear'] * rs.normal(size=len(df))
    if spec.get('round'):
        df = df.round(spec['round'])
    if spec.get('levels'):
        for col, lv in zip(df.columns, spec['levels']):
            if lv:
                q = pd.qcut(df[col], lv, labels=False, duplicates='drop')
                df[col] = q.to_numpy().astype(float) * 1.5 + 1.0
    if spec.get('tie_cols') and df.shape[1] >= 3:
        # exact tie tau(c0,c2) == tau(c1,c2) without extreme dependence: c1 is c0 in reversed
        # row order and c2 is symmetric under row reversal, so reversing the rows maps the
        # pair (c0,c2) onto (c1,c2)
        n = len(df)
        c0 = df.iloc[:, 0].to_numpy()
        c2 = df.iloc[:, 2].to_numpy().copy()
        for i in range(n // 2):
            c2[n - 1 - i] = c2[i]
        df[df.columns[1]] = c0[::-1] * 0.5 + 1.0
        df[df.columns[2]] = c2
    return zoo.decorate_index(df, spec.get('index', 'range'))


def fit_vine(vine_type, truncated, df, poison, pseed=0, state=7, seed=None, prefit=None,
             positional=False):
    """Fit a vine under the given allocator content.  With ``prefit`` (a table, truncation)
    the SAME object is first fitted on that other table and used once: "after fit" has to
    hold for a second fit of a live object just as for the first."""
    from copulas.multivariate import VineCopula
    kwargs = {}
    if seed is not None:
        kwargs['random_state'] = seed
    v = VineCopula(vine_type, **kwargs)
    with sterile(state), Poison(poison, seed=pseed):
        if prefit is not None:
            o = outcome(v.fit, prefit[0], truncated=prefit[1])
            if o[0] == 'ok':
                outcome(v.sample, 1)
                outcome(v.get_likelihood, np.full((1, prefit[0].shape[1]), 0.4))
        if truncated is None:
            out = outcome(v.fit, df)                   # the documented default truncation
        elif positional:
            out = outcome(v.fit, df, truncated)        # fit(X, t)
        else:
            out = outcome(v.fit, df, truncated=truncated)
    return v, out


def prefit_table(spec):
    """Another table with the same columns (other seed, pattern and row count)."""
    sp = dict(spec, seed=(spec['seed'] * 7 + 13) % (2**31), n=max(40, spec['n'] // 2 + 11),
              pattern={'chain': 'star', 'star': 'neg'}.get(spec.get('pattern'), 'chain'))
    sp.pop('tie_cols', None)
    return make_table(sp)


def structure_signature(vine):
    sig = []
    for t in vine.trees:
        sig.append(sorted((int(e.L), int(e.R), tuple(sorted(int(x) for x in e.D)),
                           getattr(e.name, 'name', str(e.name))) for e in t.edges))
    return sig


def fam_of(edge):
    return getattr(edge.name, 'name', str(edge.name))


def ref_inputs(edge, u_matrix):
    """Independent selection of the edge's two input columns (F(L|D), F(R|D)): at level 1 the
    columns of u_matrix; above, the pseudo-observations *attached to the parents*, picked by
    variable identity (the parent in whose conditioned pair the variable sits, and that
    parent's row for this variable)."""
    if not edge.parents:
        return u_matrix[:, edge.L], u_matrix[:, edge.R]
    cols = {}
    for p in edge.parents:
        for var in (p.L, p.R):
            if var in (edge.L, edge.R):
                cols[var] = np.asarray(p.U[0] if p.L == var else p.U[1], dtype=float)
    return cols[edge.L], cols[edge.R]


def ref_flow(vine):
    """For every edge: its input columns by the independent selection rule, and the
    closed-form h-functions of those inputs under the edge's copula."""
    out = []
    for t in vine.trees:
        for e in t.edges:
            a, b = ref_inputs(e, vine.u_matrix)
            fam, theta = fam_of(e), float(e.theta)
            with np.errstate(all='ignore'):
                hL = refs.hfunc(fam, theta, a, b)      # F(L | R, D), closed form
                hR = refs.hfunc(fam, theta, b, a)      # F(R | L, D)
                c = _lib_copula(e)
                lL = np.asarray(c.partial_derivative(np.column_stack([a, b])), dtype=float)
                lR = np.asarray(c.partial_derivative(np.column_stack([b, a])), dtype=float)
            try:
                in_range = abs(refs.tau_of_theta(fam, theta)) <= 0.8
            except Exception:
                in_range = False
            out.append({'edge': e, 'level': t.level, 'a': a, 'b': b, 'hL': hL, 'hR': hR,
                        'libL': lL, 'libR': lR, 'closed_form_gates': in_range})
    return out


def _lib_copula(edge):
    from copulas.bivariate import Bivariate
    c = Bivariate(copula_type=edge.name)
    c.theta = edge.theta
    return c


def ref_loglik(vine, u, closed_form=False):
    """Independent recursion: sum over all edges of log c(F(L|D)(u), F(R|D)(u)), the arguments
    propagated by variable identity.  The pair-copula density and h-function are either the
    library's own (a fresh copula object per edge - their correctness is C07's matter) or,
    with closed_form=True, the closed forms of copsim.refs."""
    vals = {}
    total = 0.0
    for t in vine.trees:
        for e in t.edges:
            if not e.parents:
                a, b = float(u[e.L]), float(u[e.R])
            else:
                a = b = None
                for p in e.parents:
                    for var in (p.L, p.R):
                        if var == e.L:
                            a = vals[id(p)][var]
                        elif var == e.R:
                            b = vals[id(p)][var]
            fam, theta = fam_of(e), float(e.theta)
            with np.errstate(all='ignore'):
                if closed_form:
                    dens = float(refs.density(fam, theta, a, b))
                    hL = float(refs.hfunc(fam, theta, a, b))
                    hR = float(refs.hfunc(fam, theta, b, a))
                else:
                    c = _lib_copula(e)
                    dens = float(np.sum(c.probability_density(np.array([[a, b]]))))
                    hL = float(np.ravel(c.partial_derivative(np.array([[a, b]])))[0])
                    hR = float(np.ravel(c.partial_derivative(np.array([[b, a]])))[0])
            vals[id(e)] = {e.L: hL, e.R: hR}
            total += np.log(dens)
    return total


def within_quantified_range(vine):
    """True iff every edge copula has |tau(theta)| <= 0.8 - the range over which the closed
    forms of the families are quantified (C06-C08) and inside which copsim.refs may gate."""
    for t in vine.trees:
        for e in t.edges:
            try:
                if abs(refs.tau_of_theta(fam_of(e), float(e.theta))) > 0.8:
                    return False
            except Exception:
                return False
    return True


def left_parent_lacks_L(vine):
    """Reach probe: number of edges for which ordering the two parents by their own (L, R)
    indices (Edge.sort_edge) puts the parent that does NOT hold the edge's left node first -
    the situation in which the data flow has to pick the parent by variable identity."""
    n = 0
    for t in vine.trees:
        for e in t.edges:
            if e.parents:
                first = sorted(e.parents, key=lambda p: (p.L, p.R))[0]
                if e.L not in (first.L, first.R):
                    n += 1
    return n
