"""copsim - a small deterministic simulator with fault injection for sdv-dev/Copulas.

Everything a run does is a pure function of (VERIF_SEED, property, tier, run index)
and of the code under /repo.  See /verif/DESIGN.md section 3.
"""
