"""Seed derivation, canonical digests, run context.

Nothing in this module draws from a PRNG or reads a clock while logging.
"""

import hashlib
import json
import math
import random
from collections import Counter

import numpy as np
import pandas as pd

DEFAULT_SEED = 20261004


class CpuBudgetExceeded(BaseException):
    """Raised (from a SIGVTALRM handler) inside a run that has used up its CPU budget: a call
    into the library that does not return is an outcome the oracles can judge, not a reason
    to kill the worker.  BaseException, so that ``except Exception`` in the library cannot
    swallow it."""


def derive_seed(*parts):
    """Stable 63-bit integer from the given parts (no hash(), no numpy)."""
    text = '/'.join(str(p) for p in parts)
    return int.from_bytes(hashlib.sha256(text.encode()).digest()[:8], 'big') >> 1


def mkrng(*parts):
    return random.Random(derive_seed(*parts))


# ----------------------------------------------------------------------------
# canonical form / digests
# ----------------------------------------------------------------------------

def _fhex(x):
    x = float(x)
    if math.isnan(x):
        return 'nan'
    return x.hex()


def canon(x):
    """JSON-able canonical form; floats are compared bit for bit (NaN == NaN)."""
    if x is None or isinstance(x, (bool, str)):
        return x
    if isinstance(x, (int, np.integer)):
        return int(x)
    if isinstance(x, (float, np.floating)):
        return {'f': _fhex(x)}
    if isinstance(x, np.ndarray):
        if x.dtype == object:
            return {'nd': list(x.shape), 'o': [canon(v) for v in x.ravel().tolist()]}
        a = np.ascontiguousarray(x)
        if a.dtype.kind == 'f':
            # canonicalise NaN payloads / signs so that NaN == NaN
            a = a.copy()
            a[np.isnan(a)] = np.nan
        return {
            'nd': list(a.shape),
            'dt': str(a.dtype),
            'h': hashlib.sha256(a.tobytes()).hexdigest()[:24],
        }
    if isinstance(x, pd.DataFrame):
        return {
            'df': [str(c) for c in x.columns],
            'idx': canon(np.asarray(x.index)),
            'cols': [canon(x[c].to_numpy()) for c in x.columns],
        }
    if isinstance(x, pd.Series):
        return {'ser': str(x.name), 'idx': canon(np.asarray(x.index)), 'v': canon(x.to_numpy())}
    if isinstance(x, pd.Index):
        return {'index': canon(np.asarray(x))}
    if isinstance(x, dict):
        return {'d': sorted(([str(k), canon(v)] for k, v in x.items()), key=lambda kv: kv[0])}
    if isinstance(x, (list, tuple)):
        return [canon(v) for v in x]
    if isinstance(x, (set, frozenset)):
        return {'set': sorted((canon(v) for v in x), key=lambda v: json.dumps(v, sort_keys=True))}
    if isinstance(x, BaseException):
        return {'exc': type(x).__name__}
    if isinstance(x, np.random.RandomState):
        return {'rs': state_digest(x.get_state())}
    if isinstance(x, type):
        return {'type': x.__module__ + '.' + x.__name__}
    if hasattr(x, 'name') and hasattr(x, 'value') and type(x).__module__.startswith('copulas'):
        return {'enum': type(x).__name__ + '.' + x.name}
    return {'obj': type(x).__module__ + '.' + type(x).__name__}


def digest(x):
    return hashlib.sha256(json.dumps(canon(x), sort_keys=True).encode()).hexdigest()[:16]


def state_digest(state=None):
    """Digest of a legacy MT19937 state tuple (the global one by default)."""
    if state is None:
        state = np.random.get_state()
    h = hashlib.sha256()
    h.update(str(state[0]).encode())
    h.update(np.ascontiguousarray(state[1]).tobytes())
    h.update(repr((int(state[2]), int(state[3]), float(state[4]).hex())).encode())
    return h.hexdigest()[:16]


def states_equal(a, b):
    return (
        a[0] == b[0]
        and np.array_equal(a[1], b[1])
        and int(a[2]) == int(b[2])
        and int(a[3]) == int(b[3])
        and (float(a[4]) == float(b[4]))
    )


def same(a, b):
    """Bit-exact structural equality through the canonical form."""
    return canon(a) == canon(b)


def outcome(fn, *args, **kwargs):
    """Run fn; return ('ok', value) or ('exc', exception). BaseException included."""
    try:
        return ('ok', fn(*args, **kwargs))
    except BaseException as e:  # noqa: B902 - KeyboardInterrupt is an injected fault
        return ('exc', e)


def outcome_class(out):
    return 'ok' if out[0] == 'ok' else type(out[1]).__name__


# ----------------------------------------------------------------------------
# run context
# ----------------------------------------------------------------------------

class Ctx:
    """Everything one simulated run records."""

    def __init__(self, run):
        self.run = run
        self.events = []
        self.violations = []
        self.stats = Counter()     # logical steps: ops, draws, crash points, ...
        self.faults = Counter()    # fault kinds that actually fired
        self.probes = Counter()    # reach probes
        self.shape = []            # abstract (op, class, outcome) sequence
        self.states = set()        # abstract states reached
        self.nontrivial = False
        self.op_index = -1

    def event(self, *items):
        self.events.append([self.op_index] + [canon(i) for i in items])

    def violate(self, oracle, subject, detail, **cond):
        self.violations.append({
            'oracle': oracle,
            'subject': subject,
            'detail': str(detail)[:400],
            'cond': cond,
            'op_index': self.op_index,
        })

    def result(self):
        ev = json.dumps(self.events, sort_keys=True)
        return {
            'digest': hashlib.sha256(ev.encode()).hexdigest()[:20],
            'violations': self.violations,
            'stats': dict(self.stats),
            'faults': dict(self.faults),
            'probes': dict(self.probes),
            'shape': digest(self.shape),
            'states': sorted(self.states),
            'nontrivial': bool(self.nontrivial),
            'n_events': len(self.events),
        }


def vkey(v):
    """Identity of a violation class (what shrinking must preserve)."""
    return (v['oracle'], v['subject'])
