"""Known-findings file: committed, line oriented, read-only at run time.

open:  property=C17 oracle=<o> subject=<s> condition=<json> :: free text
fixed: property=C15 <commit> <what failed>

A ``fixed:`` line suppresses nothing.  An ``open:`` line matches a violation iff property,
oracle and subject are equal and every key of ``condition`` is present in the violation's
``cond`` and satisfies it (scalar: equality; list: membership; {"min":a,"max":b}: range).
"""

import json
import os
import re

PATH = os.path.join(os.path.dirname(os.path.dirname(os.path.abspath(__file__))),
                    'known_findings.txt')

_LINE = re.compile(
    r'^open:\s+property=(\S+)\s+oracle=(\S+)\s+subject=(\S+)\s+condition=(\{.*?\})\s+::\s*(.*)$')


def load(path=PATH):
    out = []
    if not os.path.exists(path):
        return out
    with open(path) as f:
        for n, line in enumerate(f, 1):
            line = line.strip()
            if not line or line.startswith('#') or line.startswith('fixed:'):
                continue
            m = _LINE.match(line)
            if not m:
                raise ValueError('known_findings.txt:%d: cannot parse' % n)
            out.append({
                'id': 'KF%d' % n,
                'property': m.group(1),
                'oracle': m.group(2),
                'subject': m.group(3),
                'condition': json.loads(m.group(4)),
                'text': m.group(5),
            })
    return out


def _sat(want, have):
    if isinstance(want, dict):
        if have is None:
            return False
        if 'min' in want and not have >= want['min']:
            return False
        if 'max' in want and not have <= want['max']:
            return False
        return True
    if isinstance(want, list):
        return have in want
    return have == want


def classify(prop, violation, entries):
    """Return the matching open entry, or None."""
    for e in entries:
        if e['property'] != prop or e['oracle'] != violation['oracle'] \
                or e['subject'] != violation['subject']:
            continue
        cond = violation.get('cond') or {}
        if all(k in cond and _sat(w, cond[k]) for k, w in e['condition'].items()):
            return e
    return None
