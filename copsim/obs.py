"""Observable behaviour of a model (used by the twin comparisons of C14 and C19).

obs(model) = canonicalised to_dict() + outputs of every public query on a probe grid +
a seeded sample, all computed on a deep copy under a pinned global RNG state and a pinned
allocator content, so that two observations are comparable bit for bit."""

import copy

import numpy as np
import pandas as pd

from copsim import zoo
from copsim.core import canon, outcome
from copsim.seams import Poison, sterile

UNI_QUERIES = ['probability_density', 'log_probability_density', 'cumulative_distribution',
               'percent_point', 'pdf', 'cdf', 'ppf', 'sample', 'to_dict']
BIV_QUERIES = ['probability_density', 'log_probability_density', 'cumulative_distribution',
               'partial_derivative', 'percent_point', 'pdf', 'cdf', 'ppf', 'sample']
GMV_QUERIES = ['probability_density', 'log_probability_density', 'cumulative_distribution',
               'pdf', 'cdf', 'sample', 'to_dict']
VINE_QUERIES = ['sample', 'get_likelihood']


def _out(o):
    if o[0] == 'ok':
        return ['ok', canon(o[1])]
    return ['exc', type(o[1]).__name__]


def uni_grid(data):
    data = np.asarray(data, dtype=float)
    lo, hi = float(np.min(data)), float(np.max(data))
    span = (hi - lo) or 1.0
    return np.concatenate([np.linspace(lo - 0.2 * span, hi + 0.2 * span, 9),
                           np.array([lo, hi, float(np.median(data))])])


_EPS32 = float(np.finfo(np.float32).eps)
# incl. the library's own clipping constants exactly (boundary of its case distinctions)
P_GRID = np.array([0.0, 1e-9, _EPS32, 0.01, 0.25, 0.5, 0.75, 0.99, 1.0 - _EPS32, 1.0 - 1e-9, 1.0])
UV_GRID = np.array([[0.1, 0.2], [0.5, 0.5], [0.9, 0.3], [0.3, 0.95], [0.01, 0.02], [0.7, 0.71]])


def observe(model, kind, data=None, seed=12345, state=999, with_dict=True, poison='zero'):
    """Observation record (JSON-able, canonical).  The model itself is queried - not a deep
    copy, which would route the observation through the model's own copy/pickle protocol and
    hide a defect of that protocol in both sides of a comparison.  Only ``random_state`` is
    touched (for the seeded samples) and put back afterwards."""
    m = model
    rec = {'class': type(model).__module__ + '.' + type(model).__name__}
    saved_rs = getattr(model, 'random_state', None)
    try:
        return _observe(m, kind, data, seed, state, with_dict, rec, poison)
    finally:
        try:
            model.random_state = saved_rs
        except Exception:
            pass


def _observe(m, kind, data, seed, state, with_dict, rec, poison='zero'):
    with sterile(state), Poison(poison):
        if kind == 'uni':
            inst = getattr(m, '_instance', None)
            if type(m).__name__ == 'Univariate':
                rec['selected'] = type(inst).__name__ if inst is not None else None
            grid = uni_grid(data) if data is not None else np.linspace(-3, 3, 7)
            if with_dict:
                rec['to_dict'] = _out(outcome(m.to_dict))
            rec['pdf'] = _out(outcome(m.probability_density, grid))
            rec['logpdf'] = _out(outcome(m.log_probability_density, grid))
            rec['cdf'] = _out(outcome(m.cumulative_distribution, grid))
            rec['ppf'] = _out(outcome(m.percent_point, P_GRID))
            rec['seeded_sample'] = _seeded(m, seed, lambda: m.sample(5))
        elif kind == 'biv':
            if with_dict:
                rec['to_dict'] = _out(outcome(m.to_dict))
            rec['pdf'] = _out(outcome(m.probability_density, UV_GRID))
            rec['cdf'] = _out(outcome(m.cumulative_distribution, UV_GRID))
            rec['h'] = _out(outcome(m.partial_derivative, UV_GRID))
            rec['ppf'] = _out(outcome(m.percent_point, UV_GRID[:, 0], UV_GRID[:, 1]))
            rec['seeded_sample'] = _seeded(m, seed, lambda: m.sample(4))
        elif kind == 'gmv':
            if with_dict:
                rec['to_dict'] = _out(outcome(m.to_dict))
            rows = data.iloc[:4] if isinstance(data, pd.DataFrame) else None
            if rows is None and isinstance(data, np.ndarray) and data.ndim == 2:
                # a model trained on an ndarray labels its columns 0..d-1
                rows = pd.DataFrame(data[:4].copy())
            if rows is not None:
                rec['pdf'] = _out(outcome(m.probability_density, rows))
                rec['cdf'] = _out(outcome(m.cumulative_distribution, rows))
            rec['seeded_sample'] = _seeded(m, seed, lambda: m.sample(3))
            if rows is not None and rows.shape[1] >= 2:
                # conditional sampling addresses the correlation by label
                first, last = rows.columns[0], rows.columns[-1]
                cond = {last: float(rows[last].iloc[0])}
                rec['seeded_conditional_sample'] = _seeded(
                    m, seed + 1, lambda: m.sample(2, conditions=cond))
                if rows.shape[1] >= 3:
                    cond2 = {last: float(rows[last].iloc[1]), first: float(rows[first].iloc[1])}
                    rec['seeded_conditional_sample_2'] = _seeded(
                        m, seed + 2, lambda: m.sample(2, conditions=cond2))
        elif kind == 'vine':
            if with_dict:
                rec['to_dict'] = _out(outcome(m.to_dict))
            d = getattr(m, 'n_var', None) or (data.shape[1] if data is not None else 3)
            u = np.array([[0.15 + 0.7 * ((3 * j + 1) % 7) / 7.0 for j in range(d)]])
            rec['likelihood'] = _out(outcome(m.get_likelihood, u))
            rec['seeded_sample'] = _seeded(m, seed, lambda: m.sample(2))
        else:
            raise ValueError(kind)
    return rec


def _seeded(m, seed, fn):
    o = outcome(m.set_random_state, seed)
    if o[0] != 'ok':
        return ['exc-set', type(o[1]).__name__]
    a = _out(outcome(fn))
    b = _out(outcome(fn))
    return [a, b]


def diff(a, b):
    """Keys whose observation differs."""
    return sorted(k for k in set(a) | set(b) if a.get(k) != b.get(k))


def misuse_calls(model, kind, d=3):
    """(name, thunk) for every query that must raise NotFittedError on an unfitted model."""
    x = np.array([0.1, 0.5])
    calls = []
    if kind == 'uni':
        for q in UNI_QUERIES:
            if q == 'sample':
                calls.append((q, lambda: model.sample(2)))
            elif q == 'to_dict':
                calls.append((q, model.to_dict))
            elif q in ('percent_point', 'ppf'):
                calls.append((q, lambda q=q: getattr(model, q)(np.array([0.2, 0.6]))))
            else:
                calls.append((q, lambda q=q: getattr(model, q)(x)))
    elif kind == 'biv':
        X = np.array([[0.2, 0.3], [0.6, 0.5]])
        for q in BIV_QUERIES:
            if q == 'sample':
                calls.append((q, lambda: model.sample(2)))
            elif q in ('percent_point', 'ppf'):
                calls.append((q, lambda q=q: getattr(model, q)(np.array([0.3]), np.array([0.4]))))
            else:
                calls.append((q, lambda q=q: getattr(model, q)(X)))
    elif kind == 'gmv':
        X = pd.DataFrame(np.array([[0.1] * d, [0.4] * d]), columns=['c%d' % i for i in range(d)])
        for q in GMV_QUERIES:
            if q == 'sample':
                calls.append((q, lambda: model.sample(2)))
                calls.append(('sample_conditional', lambda: model.sample(2, conditions={'c0': 0.1})))
            elif q == 'to_dict':
                calls.append((q, model.to_dict))
            else:
                calls.append((q, lambda q=q: getattr(model, q)(X)))
    elif kind == 'vine':
        calls.append(('sample', lambda: model.sample(2)))
        calls.append(('get_likelihood', lambda: model.get_likelihood(np.full((1, d), 0.3))))
    return calls
