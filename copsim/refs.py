"""Reference models written independently of /repo.

Closed-form Archimedean copulas (CDF, h-function dC/dv, density), tau<->theta maps,
partitioned-normal conditional law, distribution-free bands, regular-vine checker,
maximum spanning tree weight."""

import math

import numpy as np


# ----------------------------------------------------------------------------
# Archimedean families (u, v arrays in (0,1))
# ----------------------------------------------------------------------------

def cdf(family, theta, u, v):
    u = np.asarray(u, dtype=float)
    v = np.asarray(v, dtype=float)
    if family in ('CLAYTON', 'FRANK') and float(theta) == 0.0:
        family = 'INDEPENDENCE'          # the theta -> 0 limit of both families
    if family == 'CLAYTON':
        return np.power(np.power(u, -theta) + np.power(v, -theta) - 1.0, -1.0 / theta)
    if family == 'FRANK':
        a = np.expm1(-theta * u) * np.expm1(-theta * v) / np.expm1(-theta)
        return -np.log1p(a) / theta
    if family == 'GUMBEL':
        x, y = -np.log(u), -np.log(v)
        return np.exp(-np.power(np.power(x, theta) + np.power(y, theta), 1.0 / theta))
    if family == 'INDEPENDENCE':
        return u * v
    raise ValueError(family)


def hfunc(family, theta, u, v):
    """dC(u,v)/dv = P(U <= u | V = v)."""
    u = np.asarray(u, dtype=float)
    v = np.asarray(v, dtype=float)
    if family in ('CLAYTON', 'FRANK') and float(theta) == 0.0:
        family = 'INDEPENDENCE'          # the theta -> 0 limit of both families
    if family == 'CLAYTON':
        s = np.power(u, -theta) + np.power(v, -theta) - 1.0
        return np.power(v, -theta - 1.0) * np.power(s, -1.0 / theta - 1.0)
    if family == 'FRANK':
        eu, ev, e1 = np.expm1(-theta * u), np.expm1(-theta * v), np.expm1(-theta)
        return (ev + 1.0) * eu / (e1 + eu * ev)
    if family == 'GUMBEL':
        x, y = -np.log(u), -np.log(v)
        s = np.power(x, theta) + np.power(y, theta)
        c = np.exp(-np.power(s, 1.0 / theta))
        return c * np.power(s, 1.0 / theta - 1.0) * np.power(y, theta - 1.0) / v
    if family == 'INDEPENDENCE':
        return u + 0 * v
    raise ValueError(family)


def density(family, theta, u, v):
    u = np.asarray(u, dtype=float)
    v = np.asarray(v, dtype=float)
    if family in ('CLAYTON', 'FRANK') and float(theta) == 0.0:
        family = 'INDEPENDENCE'          # the theta -> 0 limit of both families
    if family == 'CLAYTON':
        s = np.power(u, -theta) + np.power(v, -theta) - 1.0
        return (theta + 1.0) * np.power(u * v, -theta - 1.0) * np.power(s, -2.0 - 1.0 / theta)
    if family == 'FRANK':
        e1 = -np.expm1(-theta)
        num = theta * e1 * np.exp(-theta * (u + v))
        den = e1 - np.expm1(-theta * u) * np.expm1(-theta * v)
        return num / (den * den)
    if family == 'GUMBEL':
        x, y = -np.log(u), -np.log(v)
        s = np.power(x, theta) + np.power(y, theta)
        c = np.exp(-np.power(s, 1.0 / theta))
        return (c / (u * v) * np.power(x * y, theta - 1.0) * np.power(s, 2.0 / theta - 2.0)
                * (1.0 + (theta - 1.0) * np.power(s, -1.0 / theta)))
    if family == 'INDEPENDENCE':
        return np.ones_like(u * v)
    raise ValueError(family)


def _debye1(x):
    from scipy import integrate
    if x == 0:
        return 1.0
    val = integrate.quad(lambda t: t / math.expm1(t) if t != 0 else 1.0, 0.0, x)[0]
    return val / x


def tau_of_theta(family, theta):
    if family == 'CLAYTON':
        return theta / (theta + 2.0)
    if family == 'GUMBEL':
        return 1.0 - 1.0 / theta
    if family == 'FRANK':
        return 1.0 - 4.0 / theta * (1.0 - _debye1(theta))
    if family == 'INDEPENDENCE':
        return 0.0
    raise ValueError(family)


def theta_of_tau(family, tau):
    if family == 'CLAYTON':
        return 2.0 * tau / (1.0 - tau)
    if family == 'GUMBEL':
        return 1.0 / (1.0 - tau)
    if family == 'FRANK':
        from scipy.optimize import brentq
        if tau == 0:
            return 0.0
        sign = 1.0 if tau > 0 else -1.0
        f = lambda th: tau_of_theta('FRANK', th) - abs(tau)  # noqa: E731
        return sign * brentq(f, 1e-9, 700.0)
    raise ValueError(family)


def theta_admissible(family, theta):
    if theta is None or not np.isfinite(theta) and family != 'CLAYTON':
        return False
    if family == 'CLAYTON':
        return theta >= 0
    if family == 'GUMBEL':
        return theta >= 1
    if family == 'FRANK':
        return theta != 0
    return family == 'INDEPENDENCE'


# ----------------------------------------------------------------------------
# Gaussian conditional law
# ----------------------------------------------------------------------------

def conditional_normal(R, idx_free, idx_given, z):
    """Mean and covariance of X_free | X_given = z for X ~ N(0, R)."""
    R = np.asarray(R, dtype=float)
    S11 = R[np.ix_(idx_free, idx_free)]
    S12 = R[np.ix_(idx_free, idx_given)]
    S22 = R[np.ix_(idx_given, idx_given)]
    W = np.linalg.solve(S22, S12.T).T          # S12 S22^-1 without forming the inverse
    mean = W @ np.asarray(z, dtype=float)
    cov = S11 - W @ S12.T
    return mean, cov


# ----------------------------------------------------------------------------
# distribution-free finite-sample bands
# ----------------------------------------------------------------------------

def dkw_eps(n, alpha):
    return math.sqrt(math.log(2.0 / alpha) / (2.0 * n))


def hoeffding_tau_eps(n, alpha):
    k = n // 2
    return math.sqrt(2.0 * math.log(2.0 / alpha) / k)


def naaman_eps(n, d, alpha):
    return math.sqrt(math.log(d * (n + 1) / alpha) / (2.0 * n))


def ks_distance(sample, cdf_fn):
    x = np.sort(np.asarray(sample, dtype=float))
    n = len(x)
    F = np.asarray(cdf_fn(x), dtype=float)
    hi = np.arange(1, n + 1) / n
    lo = np.arange(0, n) / n
    return float(max(np.max(np.abs(hi - F)), np.max(np.abs(F - lo))))


def kendall_tau(x, y):
    from scipy import stats
    return float(stats.kendalltau(x, y)[0])


# ----------------------------------------------------------------------------
# regular-vine validity checker
# ----------------------------------------------------------------------------

class _UF:
    def __init__(self, items):
        self.p = {i: i for i in items}

    def find(self, a):
        while self.p[a] != a:
            self.p[a] = self.p[self.p[a]]
            a = self.p[a]
        return a

    def union(self, a, b):
        ra, rb = self.find(a), self.find(b)
        if ra == rb:
            return False
        self.p[ra] = rb
        return True


def edge_vars(e):
    return frozenset([e.L, e.R]) | frozenset(e.D)


def check_vine(trees, d, truncation, vine_type, by_content=False):
    """Independent check that ``trees`` (objects with .edges; edges with L, R, D, parents,
    name, theta) form a regular vine of the requested type on d variables.
    Returns a list of (clause, detail) problems; empty = valid."""
    problems = []
    want_trees = max(1, min(d - 1, truncation))
    if len(trees) != want_trees:
        problems.append(('tree_count', 'have %d trees, want %d' % (len(trees), want_trees)))
        return problems
    seen_pairs = set()
    prev_edges = None
    for k, tree in enumerate(trees, start=1):
        edges = list(tree.edges)
        n_nodes = d - k + 1
        if len(edges) != d - k:
            problems.append(('edge_count', 'tree %d has %d edges, want %d'
                             % (k, len(edges), d - k)))
            return problems
        if k == 1:
            uf = _UF(range(d))
            for e in edges:
                if e.L == e.R or not (0 <= e.L < d and 0 <= e.R < d):
                    problems.append(('conditioned_pair', 'tree 1 edge (%s,%s)' % (e.L, e.R)))
                    continue
                if e.D:
                    problems.append(('conditioning_set', 'tree 1 edge has D=%s' % sorted(e.D)))
                if not uf.union(e.L, e.R):
                    problems.append(('spanning_tree', 'tree 1 has a cycle at (%s,%s)'
                                     % (e.L, e.R)))
            node_pairs = [(e.L, e.R) for e in edges]
        else:
            if by_content:
                # a vine read back from its export: the parents of an edge are copies of the
                # edges of the tree above, recognised by (conditioned pair, conditioning set)
                def ident(pe):
                    return (frozenset([pe.L, pe.R]), frozenset(pe.D))
            else:
                ident = id
            ids = {ident(pe): i for i, pe in enumerate(prev_edges)}
            uf = _UF(range(len(prev_edges)))
            node_pairs = []
            for e in edges:
                ps = e.parents
                if not ps or len(ps) != 2 or ident(ps[0]) not in ids or ident(ps[1]) not in ids \
                        or ident(ps[0]) == ident(ps[1]):
                    problems.append(('proximity', 'tree %d edge (%s,%s|%s): parents are not two '
                                     'distinct edges of tree %d'
                                     % (k, e.L, e.R, sorted(e.D), k - 1)))
                    continue
                A, B = edge_vars(ps[0]), edge_vars(ps[1])
                if len(A & B) != k - 1:
                    problems.append(('proximity', 'tree %d edge (%s,%s|%s): parents share %d '
                                     'variables, want %d'
                                     % (k, e.L, e.R, sorted(e.D), len(A & B), k - 1)))
                if k == 2:
                    # proximity in the graph sense: parents share a node of tree 1
                    if not ({ps[0].L, ps[0].R} & {ps[1].L, ps[1].R}):
                        problems.append(('proximity', 'tree 2 edge joins non-adjacent edges'))
                if frozenset(e.D) != (A & B) or len(e.D) != k - 1:
                    problems.append(('conditioning_set', 'tree %d edge (%s,%s|%s): want D=%s'
                                     % (k, e.L, e.R, sorted(e.D), sorted(A & B))))
                if e.L == e.R or frozenset([e.L, e.R]) != (A ^ B):
                    problems.append(('conditioned_pair', 'tree %d edge (%s,%s|%s): want pair %s'
                                     % (k, e.L, e.R, sorted(e.D), sorted(A ^ B))))
                a, b = ids[ident(ps[0])], ids[ident(ps[1])]
                node_pairs.append((a, b))
                if not uf.union(a, b):
                    problems.append(('spanning_tree', 'tree %d has a cycle' % k))
        roots = {uf.find(i) for i in uf.p}
        if len(roots) != 1 and not any(p[0] == 'spanning_tree' for p in problems):
            problems.append(('spanning_tree', 'tree %d is not connected (%d components on %d '
                             'nodes)' % (k, len(roots), n_nodes)))
        for e in edges:
            pair = frozenset([e.L, e.R])
            if pair in seen_pairs:
                problems.append(('pair_conditioned_twice', 'pair %s appears again in tree %d'
                                 % (sorted(pair), k)))
            seen_pairs.add(pair)
            fam = getattr(e.name, 'name', e.name)
            if fam not in ('CLAYTON', 'FRANK', 'GUMBEL'):
                problems.append(('edge_family', 'tree %d edge has family %r' % (k, fam)))
            elif not theta_admissible(fam, e.theta):
                problems.append(('edge_theta', 'tree %d edge %s theta=%r' % (k, fam, e.theta)))
        # shape
        deg = {}
        for a, b in node_pairs:
            deg[a] = deg.get(a, 0) + 1
            deg[b] = deg.get(b, 0) + 1
        m = len(node_pairs)
        if vine_type == 'center' and m >= 1:
            if max(deg.values()) != m:
                problems.append(('center_star', 'tree %d is not a star (degrees %s)'
                                 % (k, sorted(deg.values()))))
        if vine_type == 'direct' and m >= 1:
            if max(deg.values()) > 2:
                problems.append(('direct_path', 'tree %d is not a path (degrees %s)'
                                 % (k, sorted(deg.values()))))
        prev_edges = edges
    return problems


def mst_weight(W):
    """Total weight of a maximum spanning tree of the complete graph with weights W (Kruskal)."""
    d = W.shape[0]
    pairs = sorted(((W[i, j], i, j) for i in range(d) for j in range(i + 1, d)), reverse=True)
    uf = _UF(range(d))
    total = 0.0
    for w, i, j in pairs:
        if uf.union(i, j):
            total += w
    return total
