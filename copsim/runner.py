"""Seeded search over runs: fork pool, watchdogs, digests, shrinking, replay, evidence."""

import concurrent.futures as cf
import faulthandler
import importlib
import json
import multiprocessing
import os
import subprocess
import sys
import time
import traceback
from collections import Counter

from copsim import findings
from copsim.core import DEFAULT_SEED, derive_seed, mkrng, vkey

ROOT = os.path.dirname(os.path.dirname(os.path.abspath(__file__)))
EVIDENCE_DIR = os.path.join(ROOT, 'evidence')
REPLAY_DIR = os.path.join(ROOT, 'replays')
REGRESS_DIR = os.path.join(ROOT, 'regress')
PY = sys.executable
RUN_TIMEOUT = 2400         # wall seconds per run: last-resort watchdog (kills the worker)
RUN_CPU_BUDGET = 150       # CPU seconds per run: raises CpuBudgetExceeded inside the run


class HarnessError(Exception):
    pass


def load_check(prop):
    return importlib.import_module('checks.' + prop.lower())


# ----------------------------------------------------------------------------
# worker side
# ----------------------------------------------------------------------------

def _prepare_worker():
    from copsim.seams import reset_process_globals
    reset_process_globals()


def execute_run(mod, run):
    """Execute one run in this process.  Returns the result dict; a Python exception
    escaping the check is a harness error, never a violation."""
    import signal

    from copsim.core import CpuBudgetExceeded
    from copsim.seams import reset_process_globals
    reset_process_globals()
    faulthandler.dump_traceback_later(RUN_TIMEOUT, exit=True)

    budget = float(run.get('cpu_budget', RUN_CPU_BUDGET)) if isinstance(run, dict) \
        else RUN_CPU_BUDGET             # enumeration runs declare a larger one

    def on_budget(signum, frame):
        # re-arm: if the exception is absorbed as the outcome of one call, the rest of the run
        # gets a further slice
        signal.setitimer(signal.ITIMER_VIRTUAL, budget / 3.0)
        raise CpuBudgetExceeded('run used more than %d s of CPU time' % budget)

    old = signal.signal(signal.SIGVTALRM, on_budget)
    signal.setitimer(signal.ITIMER_VIRTUAL, budget)              # process CPU time, not wall
    try:
        return mod.execute(run)
    finally:
        signal.setitimer(signal.ITIMER_VIRTUAL, 0)
        signal.signal(signal.SIGVTALRM, old)
        faulthandler.cancel_dump_traceback_later()


def get_run(mod, seed, tier, idx):
    fixed = _fixed_runs(mod, tier)
    if idx < len(fixed):
        return fixed[idx]
    rng = mkrng(seed, mod.PROPERTY, tier, idx)
    return mod.generate(rng, tier, idx)


_FIXED_CACHE = {}


def _fixed_runs(mod, tier):
    key = (mod.PROPERTY, tier)
    if key not in _FIXED_CACHE:
        fn = getattr(mod, 'fixed_runs', None)
        _FIXED_CACHE[key] = list(fn(tier)) if fn else []
    return _FIXED_CACHE[key]


def _batch(prop, seed, tier, idxs, want_runs):
    mod = load_check(prop)
    out = []
    for idx in idxs:
        try:
            run = get_run(mod, seed, tier, idx)
            t_run = time.time()
            res = execute_run(mod, run)
            res['secs'] = time.time() - t_run
        except BaseException as e:  # noqa: B902
            out.append({'idx': idx, 'harness_error': ''.join(
                traceback.format_exception(type(e), e, e.__traceback__))[-3000:]})
            continue
        res['idx'] = idx
        if res['violations'] or idx in want_runs:
            res['run'] = run
        out.append(res)
    return out


def _exec_candidate(prop, run):
    mod = load_check(prop)
    try:
        return execute_run(mod, run)
    except BaseException as e:  # noqa: B902
        return {'harness_error': repr(e), 'violations': []}


# ----------------------------------------------------------------------------
# parent side
# ----------------------------------------------------------------------------

def _pool(workers):
    ctx = multiprocessing.get_context('fork')
    return cf.ProcessPoolExecutor(max_workers=workers, mp_context=ctx,
                                  initializer=_prepare_worker)


def _group_key(prop, v, entries):
    e = findings.classify(prop, v, entries)
    return (v['oracle'], v['subject'], e['id'] if e else None)


def ddmin(items, test, budget):
    """Classic delta debugging on a list; test(sublist) -> bool (still fails)."""
    n = 2
    while len(items) >= 2 and budget[0] > 0:
        chunk = max(1, len(items) // n)
        subsets = [items[i:i + chunk] for i in range(0, len(items), chunk)]
        reduced = False
        for i in range(len(subsets)):
            if budget[0] <= 0:
                break
            complement = [x for j, s in enumerate(subsets) if j != i for x in s]
            budget[0] -= 1
            if complement and test(complement):
                items = complement
                n = max(n - 1, 2)
                reduced = True
                break
        if not reduced:
            if n >= len(items):
                break
            n = min(len(items), n * 2)
    if len(items) == 1 and budget[0] > 0:
        budget[0] -= 1
        if test([]):
            items = []
    return items


def shrink(pool, mod, run, gkey, entries, max_exec=80, max_wall=90):
    """Minimise the op list (and whatever the check offers through simplify())
    while the same violation class - same oracle, subject and known-finding
    classification - persists."""
    prop = mod.PROPERTY
    t0 = time.time()
    budget = [max_exec]
    best = [run]

    def fails(candidate):
        if time.time() - t0 > max_wall:
            budget[0] = 0
            return False
        try:
            res = pool.submit(_exec_candidate, prop, candidate).result(timeout=RUN_TIMEOUT + 30)
        except Exception:
            return False
        return any(_group_key(prop, v, entries) == gkey for v in res['violations'])

    for list_key in getattr(mod, 'SHRINK_LISTS', ('ops',)):
        if list_key not in run or not isinstance(best[0].get(list_key), list):
            continue

        def test(sub, list_key=list_key):
            cand = dict(best[0])
            cand[list_key] = sub
            return fails(cand)

        items = ddmin(list(best[0][list_key]), test, budget)
        cand = dict(best[0])
        cand[list_key] = items
        best[0] = cand

    simplify = getattr(mod, 'simplify', None)
    if simplify:
        progress = True
        while progress and budget[0] > 0:
            progress = False
            for cand in simplify(best[0]):
                if budget[0] <= 0:
                    break
                budget[0] -= 1
                if fails(cand):
                    best[0] = cand
                    progress = True
                    break
    return best[0], max_exec - budget[0]


def write_replay(mod, seed, tier, idx, run, violation, digest):
    os.makedirs(REPLAY_DIR, exist_ok=True)
    body = {
        'format': 1,
        'property': mod.PROPERTY,
        'verif_seed': seed,
        'tier': tier,
        'run_index': idx,
        'env': {'PYTHONHASHSEED': os.environ.get('PYTHONHASHSEED'), 'blas_threads': 1},
        'run': run,
        'violation': violation,
        'event_digest': digest,
    }
    # key order is preserved on purpose: the order of a configuration dict is part of the input
    text = json.dumps(body, indent=1)
    import hashlib
    name = '%s-%s.json' % (mod.PROPERTY, hashlib.sha256(text.encode()).hexdigest()[:12])
    path = os.path.join(REPLAY_DIR, name)
    with open(path, 'w') as f:
        f.write(text)
    return path


def replay_file(prop, path, quiet=False):
    """Re-execute a replay file in this process.  Exit status semantics:
    1 (+VIOLATION line) if the recorded violation class reproduces and is not a
    known finding, 0 otherwise."""
    mod = load_check(prop)
    with open(path) as f:
        body = json.load(f)
    _prepare_worker()
    res = execute_run(mod, body['run'])
    entries = findings.load()
    want = (body['violation']['oracle'], body['violation']['subject'])
    hits = [v for v in res['violations'] if vkey(v) == want]
    same_digest = res['digest'] == body.get('event_digest')
    if not quiet:
        print('replay %s: %d violation(s), recorded class %s: %s; event digest %s'
              % (path, len(res['violations']), want,
                 'REPRODUCED' if hits else 'not reproduced',
                 'identical' if same_digest else 'differs'))
        for v in res['violations'][:10]:
            print('  ', json.dumps(v, sort_keys=True))
    if hits:
        e = findings.classify(prop, hits[0], entries)
        if e:
            print('KNOWN-FINDING: property=%s %s' % (prop, e['text']))
            return 0, res
        print('VIOLATION property=%s replay=%s' % (prop, path))
        return 1, res
    return 0, res


def _fresh_process_replay(prop, path):
    """Replay in a fresh interpreter; returns (reproduced, digest_identical)."""
    env = dict(os.environ)
    env['COPSIM_REEXEC'] = '1'
    p = subprocess.run([PY, os.path.join(ROOT, 'vcheck.py'), prop, '--replay', path],
                       capture_output=True, text=True, env=env, timeout=RUN_TIMEOUT * 2)
    out = p.stdout
    return ('REPRODUCED' in out), ('event digest identical' in out), out[-2000:]


def run_check(prop, tier, seed=None, workers=None, runs=None, wall=None):
    mod = load_check(prop)
    assert mod.PROPERTY == prop
    seed = DEFAULT_SEED if seed is None else seed
    workers = workers or min(16, os.cpu_count() or 4)
    cfg = dict(mod.TIERS[tier])
    if runs is not None:
        cfg['runs'] = runs
    if wall is not None:
        cfg['wall'] = wall
    entries = findings.load()
    t0 = time.time()
    print('VERIF_SEED=%d property=%s tier=%s runs<=%d wall<=%ds workers=%d'
          % (seed, prop, tier, cfg['runs'], cfg['wall'], workers), flush=True)

    # regression stage: the minimised replays of every finding that was repaired ("fixed:"
    # lines of known_findings.txt) are re-executed first; a fixed entry suppresses nothing
    regress_hits = []
    regress_results = []
    regress_files = sorted(f for f in (os.listdir(REGRESS_DIR) if os.path.isdir(REGRESS_DIR)
                                       else []) if f.startswith(prop + '-'))
    _prepare_worker()
    for fn_ in regress_files:
        path = os.path.join(REGRESS_DIR, fn_)
        with open(path) as f:
            body = json.load(f)
        res = execute_run(mod, body['run'])
        regress_results.append(res)
        want = (body['violation']['oracle'], body['violation']['subject'])
        hits = [v for v in res['violations'] if vkey(v) == want
                and findings.classify(prop, v, entries) is None]
        if hits:
            regress_hits.append((path, hits[0]))
    print('regression replays: %d re-executed, %d reproduce' % (len(regress_files),
                                                                len(regress_hits)), flush=True)

    n_fixed = len(_fixed_runs(mod, tier))
    total = cfg['runs'] + n_fixed
    batch = cfg.get('batch', 4)
    sample_idx = set(range(min(3, total))) | {n_fixed, n_fixed + 1}
    # determinism probe: a fixed 2% (at least 3) of run indices is executed twice
    recheck = [i for i in range(total) if derive_seed('recheck', seed, i) % 50 == 0]
    if len(recheck) < 3:
        recheck = list(range(min(3, total)))

    agg = {'stats': Counter(), 'faults': Counter(), 'probes': Counter()}
    for res in regress_results:          # the regression replays are executions of this run too
        for k in ('stats', 'faults', 'probes'):
            agg[k].update(res[k])
    shapes = set()
    states = set()
    digests = {}
    samples = []
    viol = []
    harness_errors = []
    evaluations = 0
    truncated = False
    slow = []

    pool = _pool(workers)
    try:
        pending = set()
        next_idx = 0

        def submit_more():
            nonlocal next_idx, truncated
            while len(pending) < workers * 3 and next_idx < total:
                if time.time() - t0 > cfg['wall']:
                    truncated = True
                    return
                # fixed (enumeration) runs are long: one per task, and they go first
                size = 1 if next_idx < n_fixed else batch
                idxs = list(range(next_idx, min(next_idx + size, total)))
                next_idx = idxs[-1] + 1
                pending.add(pool.submit(_batch, prop, seed, tier, idxs, sample_idx))

        submit_more()
        while pending:
            done, _ = cf.wait(pending, timeout=RUN_TIMEOUT * batch + 60,
                              return_when=cf.FIRST_COMPLETED)
            if not done:
                raise HarnessError('worker pool made no progress (watchdog)')
            for fut in done:
                pending.discard(fut)
                try:
                    results = fut.result()
                except Exception as e:
                    raise HarnessError('worker died: %r' % (e,))
                for res in results:
                    if 'harness_error' in res:
                        harness_errors.append((res['idx'], res['harness_error']))
                        continue
                    evaluations += 1
                    digests[res['idx']] = res['digest']
                    slow.append((round(res.get('secs', 0), 2), res['idx']))
                    for k in ('stats', 'faults', 'probes'):
                        agg[k].update(res[k])
                    if res['nontrivial']:
                        shapes.add(res['shape'])
                    states.update(res['states'])
                    if res['idx'] in sample_idx and 'run' in res and len(samples) < 4:
                        samples.append({'run_index': res['idx'], 'run': res['run'],
                                        'digest': res['digest'],
                                        'violations': len(res['violations'])})
                    for v in res['violations']:
                        viol.append((res['idx'], res['run'], v, res['digest']))
            submit_more()

        # determinism probe (second execution, in whichever worker picks it up)
        recheck = [i for i in recheck if i in digests]
        nondet = []
        if recheck and not harness_errors:
            futs = [pool.submit(_batch, prop, seed, tier, [i], set()) for i in recheck[:60]]
            for fut in futs:
                for res in fut.result(timeout=RUN_TIMEOUT + 60):
                    if 'harness_error' in res:
                        harness_errors.append((res['idx'], res['harness_error']))
                    elif res['digest'] != digests[res['idx']]:
                        nondet.append(res['idx'])

        # violations -> groups -> known finding or minimised replay
        groups = {}
        for idx, run, v, dg in sorted(viol, key=lambda t: t[0]):
            groups.setdefault(_group_key(prop, v, entries), (idx, run, v, dg))
        counts = Counter(_group_key(prop, v, entries) for _, _, v, _ in viol)
        if groups:
            print('violation classes (%d):' % len(groups))
            for gk in groups:
                print('   %5d x oracle=%s subject=%s%s' % (
                    counts[gk], gk[0], gk[1], ' [known %s]' % gk[2] if gk[2] else ''), flush=True)
        known_lines = []
        violation_lines = []
        seen_known = set()
        replay_problems = []
        max_report = int(os.environ.get('COPSIM_MAX_REPORT', '12'))
        for gkey, (idx, run, v, dg) in groups.items():
            if gkey[2] is not None:
                if gkey[2] not in seen_known:
                    seen_known.add(gkey[2])
                    e = [x for x in entries if x['id'] == gkey[2]][0]
                    known_lines.append('KNOWN-FINDING: property=%s %s' % (prop, e['text']))
                continue
            if violation_lines and os.environ.get('COPSIM_FIRST_ONLY'):
                break                       # self-tests only need to know that it was caught
            if len(violation_lines) >= max_report:
                # beyond the report limit: no minimisation, but still a replayable VIOLATION
                small, used = run, 0
            else:
                small, used = shrink(pool, mod, run, gkey, entries)
            res = pool.submit(_exec_candidate, prop, small).result(timeout=RUN_TIMEOUT + 30)
            vv = [x for x in res['violations'] if _group_key(prop, x, entries) == gkey]
            if not vv:      # should not happen: keep the unshrunk run
                small, res = run, pool.submit(_exec_candidate, prop, run).result()
                vv = [x for x in res['violations'] if _group_key(prop, x, entries) == gkey] or [v]
            path = write_replay(mod, seed, tier, idx, small, vv[0], res.get('digest'))
            ok, same_digest, out = _fresh_process_replay(prop, path)
            if not ok or not same_digest:
                replay_problems.append((path, ok, same_digest, out))
                continue
            violation_lines.append(('VIOLATION property=%s replay=%s' % (prop, path), vv[0], used))
    finally:
        pool.shutdown(wait=False, cancel_futures=True)

    wall_s = time.time() - t0
    # ------------------------------------------------------------------ evidence
    n_viol_classes = len([g for g in groups if g[2] is None]) + len(regress_hits)
    coverage = {
        'evaluations': evaluations,
        'distinct_nontrivial': len(shapes),
        'rule': mod.RULE,
        'samples': samples or [{'note': 'no sample captured'}],
        'exhaustive': False,
        'fixed_runs_enumerated': n_fixed,
        'random_runs': max(0, evaluations - n_fixed),
        'runs_per_hour': int(evaluations / max(wall_s, 1e-6) * 3600),
        'seeds_per_hour': int(evaluations / max(wall_s, 1e-6) * 3600),
        'simulated_time': 'none: the library has no clock; logical steps are reported instead',
        'logical_steps': dict(agg['stats']),
        'faults_fired': dict(agg['faults']),
        'reach_probes': dict(agg['probes']),
        'distinct_abstract_states': len(states),
        'abstract_state_measure': getattr(mod, 'STATE_MEASURE', ''),
        'components_real': ['copulas (all of /repo, current working tree)', 'numpy MT19937',
                            'scipy', 'pandas', 'plotly'],
        'components_stubbed': getattr(mod, 'STUBS', []),
        'determinism_probe': {'reexecuted': len(recheck[:60]), 'digest_mismatches': len(nondet)},
        'budget_truncated_by_wall_clock': truncated,
        'known_findings_emitted': known_lines,
        'regression_replays': {'reexecuted': len(regress_files),
                               'reproduced': len(regress_hits)},
        'violation_classes': n_viol_classes,
    }
    if hasattr(mod, 'extra_evidence'):
        coverage.update(mod.extra_evidence(agg))
    evidence = {
        'property_id': prop,
        'tier': tier,
        'seed': seed,
        'level': getattr(mod, 'LEVEL', 'exploration'),
        'coverage': coverage,
        'assumptions': getattr(mod, 'ASSUMPTIONS', []),
        'wall_s': round(wall_s, 2),
        'violations': n_viol_classes,
    }
    if os.environ.get('COPULAS_REPO'):
        print('(COPULAS_REPO is set: evidence file not rewritten - evidence is about /repo only)')
    else:
        os.makedirs(EVIDENCE_DIR, exist_ok=True)
        with open(os.path.join(EVIDENCE_DIR, prop + '.json'), 'w') as f:
            json.dump(evidence, f, indent=1, sort_keys=True, default=str)

    # ------------------------------------------------------------------ report
    print('runs=%d (fixed %d) distinct_nontrivial=%d states=%d wall=%.1fs runs/h=%d'
          % (evaluations, n_fixed, len(shapes), len(states), wall_s, coverage['runs_per_hour']))
    print('slowest runs (s, idx):', sorted(slow, reverse=True)[:6],
          'cpu-s total %.0f' % sum(x[0] for x in slow))
    print('logical steps:', dict(agg['stats']))
    print('faults fired :', dict(agg['faults']))
    print('reach probes :', dict(agg['probes']))
    for line in known_lines:
        print(line)
    # the machinery's own failures are reported as such; they decide the exit status (2) only
    # when no replayable violation was found next to them - a library that misbehaves often
    # trips the harness in other runs as well, and the violation is the finding
    harness_problem = False
    if harness_errors:
        print('HARNESS-ERROR: %d run(s) raised inside the harness; first:' % len(harness_errors))
        print(harness_errors[0][1])
        harness_problem = True
    if nondet:
        print('HARNESS-ERROR: event digests differ between two executions of run(s) %s'
              % nondet[:10])
        harness_problem = True
    if replay_problems:
        p = replay_problems[0]
        print('HARNESS-ERROR: replay %s did not reproduce in a fresh process '
              '(reproduced=%s digest_identical=%s)\n%s' % p)
        harness_problem = True
    if harness_problem and not violation_lines and not regress_hits:
        return 2
    for path, v in regress_hits:
        print('  regression: oracle=%s subject=%s\n  detail=%s' % (v['oracle'], v['subject'],
                                                                   v['detail']))
        print('VIOLATION property=%s replay=%s' % (prop, path))
    if regress_hits and not violation_lines:
        return 1
    if violation_lines:
        for line, v, used in violation_lines:
            print('  oracle=%s subject=%s cond=%s\n  detail=%s (shrunk with %d executions)'
                  % (v['oracle'], v['subject'], json.dumps(v['cond'], sort_keys=True),
                     v['detail'], used))
            print(line)
        return 1
    print('OK property=%s held on everything explored' % prop)
    return 0
