"""Seams the simulator owns.  All are installed from outside /repo (monkeypatching),
and all are context managers that restore what they replaced.

S1  RNG recorder / fault site   -> RngRecorder
S1  global state control         -> sterile(), with_global_state()
S2  allocator poison             -> Poison
S3  simulated filesystem         -> SimFS
S4  failing plug-in marginals    -> FailingMarginal
F1  crash points                 -> CrashTracer
S5b process-global caches        -> reset_process_globals()
S6  caller memory fingerprints   -> fingerprint()
"""

import contextlib
import errno
import io
import os
import sys
import warnings

import numpy as np
import pandas as pd

from copsim.core import canon, digest

REPO_PKG = os.path.realpath(os.path.join(os.environ.get('COPULAS_REPO', '/repo'), 'copulas'))


# ----------------------------------------------------------------------------
# S5b - process-global caches
# ----------------------------------------------------------------------------

def reset_process_globals():
    """Bring process-global library state back to its import-time value, so that a
    run does not depend on what the worker process executed before it."""
    # every run starts from a freshly imported library: whatever the library keeps at module
    # or class level (caches, registries, counters, re-entrancy markers) is back at its
    # import-time value, so a run cannot see what earlier runs of this worker process did
    for name in [k for k in sys.modules if k == 'copulas' or k.startswith('copulas.')]:
        del sys.modules[name]
    import copulas  # noqa: F401
    import copulas.bivariate.base as bb
    import copulas.bivariate.independence  # noqa: F401 - make 'independence' resolvable, always
    import copulas.datasets  # noqa: F401
    import copulas.multivariate  # noqa: F401
    import copulas.univariate  # noqa: F401

    def walk(cls):
        for sub in cls.__subclasses__():
            if '_subclasses' in sub.__dict__:
                try:
                    delattr(sub, '_subclasses')
                except AttributeError:
                    pass
            walk(sub)

    walk(bb.Bivariate)
    if '_subclasses' in bb.Bivariate.__dict__:
        bb.Bivariate._subclasses = []
    warnings.simplefilter('ignore')
    np.seterr(all='ignore')


# ----------------------------------------------------------------------------
# S1 - global generator
# ----------------------------------------------------------------------------

@contextlib.contextmanager
def with_global_state(state):
    """Run a block under the given global state and put the previous one back
    afterwards (used for out-of-band twin executions)."""
    saved = np.random.get_state()
    np.random.set_state(state)
    try:
        yield
    finally:
        np.random.set_state(saved)


def seeded_state(seed):
    return np.random.RandomState(int(seed) % (2**32)).get_state()


@contextlib.contextmanager
def sterile(seed):
    """Out-of-band execution under a fixed, unrelated global state."""
    with with_global_state(seeded_state(seed)):
        yield


_RNG_NAMES = ('uniform', 'randint', 'multivariate_normal', 'choice', 'normal', 'random',
              'exponential', 'random_sample', 'rand', 'randn', 'standard_normal')


class InjectedFault(Exception):
    """Marker mixin is not used: injected exceptions are plain ValueError /
    MemoryError / KeyboardInterrupt instances carrying this attribute."""


def make_fault(kind):
    exc = {'ValueError': ValueError, 'MemoryError': MemoryError,
           'KeyboardInterrupt': KeyboardInterrupt, 'OSError': OSError}[kind]('injected fault')
    exc._copsim_injected = True
    return exc


class RngRecorder:
    """Recording pass-through wrappers around numpy.random's module-level callables.
    The real MT19937 still produces the numbers.  Optionally a fault site: raise
    before or after the k-th intercepted draw."""

    def __init__(self, fault_at=None, fault_kind='ValueError', fault_after=False):
        self.calls = []
        self.fault_at = fault_at
        self.fault_kind = fault_kind
        self.fault_after = fault_after
        self.fired = False
        self._saved = {}
        self.psd_warnings = 0

    def _wrap(self, name, fn):
        def wrapper(*args, **kwargs):
            k = len(self.calls)
            if self.fault_at == k and not self.fault_after and not self.fired:
                self.fired = True
                raise make_fault(self.fault_kind)
            with warnings.catch_warnings(record=True) as w:
                warnings.simplefilter('always')
                result = fn(*args, **kwargs)
            self.psd_warnings += sum(1 for x in w if 'semidefinite' in str(x.message))
            self.calls.append({
                'name': name,
                'args': args,
                'kwargs': kwargs,
                'result': np.array(result, copy=True) if isinstance(result, np.ndarray) else result,
            })
            if self.fault_at == k and self.fault_after and not self.fired:
                self.fired = True
                raise make_fault(self.fault_kind)
            return result
        wrapper._copsim = True
        return wrapper

    def __enter__(self):
        for name in _RNG_NAMES:
            fn = getattr(np.random, name)
            self._saved[name] = fn
            setattr(np.random, name, self._wrap(name, fn))
        return self

    def __exit__(self, *exc):
        for name, fn in self._saved.items():
            setattr(np.random, name, fn)
        return False


# ----------------------------------------------------------------------------
# S2 - allocator poison
# ----------------------------------------------------------------------------

POISONS = ('nan', 'zero', 'big', 'noise', 'negbig', 'ones')


class _NpProxy:
    def __init__(self, real, fill, owner):
        object.__setattr__(self, '_real', real)
        object.__setattr__(self, '_fill', fill)
        object.__setattr__(self, '_owner', owner)

    def __getattr__(self, name):
        return getattr(self._real, name)

    def empty(self, shape, dtype=float, **kwargs):
        a = self._real.empty(shape, dtype=dtype, **kwargs)
        self._owner.allocations += 1
        self._fill(a)
        return a


class Poison:
    """Replace the module global ``np`` of copulas.multivariate.tree / .vine by a proxy
    whose empty() pre-fills the fresh buffer: the content of uninitialised memory becomes
    a choice of the simulator."""

    def __init__(self, pattern, seed=0):
        self.pattern = pattern
        self.allocations = 0
        self._rs = np.random.RandomState(int(seed) % (2**32))
        self._saved = []

    def _fill(self, a):
        if a.dtype.kind != 'f':
            a[...] = 0
            return
        p = self.pattern
        if p == 'nan':
            a[...] = np.nan
        elif p == 'zero':
            a[...] = 0.0
        elif p == 'ones':
            a[...] = 1.0
        elif p == 'big':
            a[...] = 1e300
        elif p == 'negbig':
            a[...] = -1e300
        elif p == 'noise':
            a[...] = self._rs.uniform(-1, 1, size=a.shape)
        else:
            raise ValueError(p)

    def __enter__(self):
        if self.pattern is None:
            return self
        # every loaded module of the library that has a module-level ``np`` (historically only
        # tree.py and vine.py allocate with np.empty; a new np.empty anywhere else is covered
        # the day it appears)
        import copulas.multivariate.tree  # noqa: F401
        import copulas.multivariate.vine  # noqa: F401
        import types
        mods = [m for k, m in sorted(sys.modules.items())
                if (k == 'copulas' or k.startswith('copulas.')) and isinstance(m, types.ModuleType)
                and getattr(m, 'np', None) is not None]
        for mod in mods:
            real = mod.np
            if isinstance(real, _NpProxy):
                real = real._real
            self._saved.append((mod, mod.np))
            mod.np = _NpProxy(real, self._fill, self)
        return self

    def __exit__(self, *exc):
        for mod, real in self._saved:
            mod.np = real
        self._saved = []
        return False


# ----------------------------------------------------------------------------
# S3 - simulated filesystem
# ----------------------------------------------------------------------------

class _SimFile:
    def __init__(self, fs, path, mode):
        self.fs = fs
        self.path = path
        self.mode = mode
        self.binary = 'b' in mode
        self.buf = io.BytesIO() if self.binary else io.StringIO()
        if 'a' in mode:
            # append: what the path already holds stays in front of what is written now
            old = fs.files.get(path, b'')
            self.buf.write(old if self.binary else old.decode())
        self.closed = False
        self.writes = 0

    def write(self, data):
        self.fs.stats['write'] += 1
        if self.fs._hit('write'):
            # a prefix of this write reaches the medium, then the device fails
            cut = len(data) // 2
            self.buf.write(data[:cut])
            self._persist()
            raise OSError(errno.ENOSPC, 'No space left on device (injected)')
        self.writes += 1
        return self.buf.write(data)

    def _persist(self):
        val = self.buf.getvalue()
        self.fs.files[self.path] = val if self.binary else val.encode()

    def close(self):
        if self.closed:
            return
        self.closed = True
        self.fs.stats['close'] += 1
        self._persist()
        if self.fs._hit('close'):
            raise OSError(errno.EIO, 'Input/output error at close (injected)')

    def __enter__(self):
        return self

    def __exit__(self, *exc):
        self.close()
        return False


class SimFS:
    """In-memory filesystem behind a module-global ``open`` injected into the three
    copulas ``base`` modules.  Fault points: open, j-th write, close."""

    def __init__(self):
        self.files = {}
        self.fault = None        # ('open'|'write'|'close', countdown)
        self.fired = []
        from collections import Counter
        self.stats = Counter()
        self._mods = []

    def arm(self, where, countdown=0):
        self.fault = [where, countdown]

    def disarm(self):
        self.fault = None

    def _hit(self, where):
        if self.fault and self.fault[0] == where:
            if self.fault[1] <= 0:
                self.fault = None
                self.fired.append(where)
                return True
            self.fault[1] -= 1
        return False

    def open(self, path, mode='r', *args, **kwargs):
        path = str(path)
        self.stats['open'] += 1
        if self._hit('open'):
            raise OSError(errno.EACCES, 'Permission denied (injected)')
        if 'x' in mode and path in self.files:
            raise FileExistsError(errno.EEXIST, 'File exists (sim)', path)
        if 'w' in mode or 'x' in mode:
            self.files[path] = b''            # open(..., 'w') truncates at once
            return _SimFile(self, path, mode)
        if 'a' in mode:
            self.files.setdefault(path, b'')  # open(..., 'a') creates, keeps the content
            return _SimFile(self, path, mode)
        if path not in self.files:
            raise FileNotFoundError(errno.ENOENT, 'No such file (sim)', path)
        data = self.files[path]
        return io.BytesIO(data) if 'b' in mode else io.StringIO(data.decode())

    def __enter__(self):
        import copulas.bivariate.base as b
        import copulas.multivariate.base as m
        import copulas.univariate.base as u
        for mod in (u, m, b):
            mod.open = self.open
            self._mods.append(mod)
        return self

    def __exit__(self, *exc):
        for mod in self._mods:
            try:
                delattr(mod, 'open')
            except AttributeError:
                pass
        self._mods = []
        return False


# ----------------------------------------------------------------------------
# F1 - crash points inside a sampler body
# ----------------------------------------------------------------------------

class CrashTracer:
    """Counts 'line' events of frames that belong to /repo/copulas (domain 'copulas') or
    of every Python frame (domain 'all'), but only inside the dynamic extent of the given
    body code object(s); raises the scheduled exception at event number ``at``.
    With at=None it only counts."""

    def __init__(self, body_codes, at=None, kind='ValueError', domain='copulas'):
        self.body_codes = set(body_codes)
        self.at = at
        self.kind = kind
        self.domain = domain
        self.count = 0
        self.depth = 0           # > 0 while a body frame is active
        self.fired = False
        self.fired_in = None

    def _in_domain(self, code):
        if self.domain == 'all':
            fn = code.co_filename
            return not fn.startswith('<') and '/copsim/' not in fn
        return code.co_filename.startswith(REPO_PKG)

    def _local(self, frame, event, arg):
        if event == 'line' and self.depth > 0 and not self.fired:
            k = self.count
            self.count += 1
            if self.at is not None and k == self.at:
                self.fired = True
                self.fired_in = frame.f_code.co_name
                raise make_fault(self.kind)
        elif event == 'return' and frame.f_code in self.body_codes:
            self.depth -= 1
        return self._local

    def _global(self, frame, event, arg):
        if event != 'call':
            return None
        code = frame.f_code
        if code in self.body_codes:
            self.depth += 1
            return self._local
        if self.depth > 0 and self._in_domain(code):
            return self._local
        return None

    def __enter__(self):
        self._prev = sys.gettrace()
        sys.settrace(self._global)
        return self

    def __exit__(self, *exc):
        sys.settrace(self._prev)
        return False


def body_codes_of(model, method='sample'):
    """Code object(s) of the undecorated sampler body of this model."""
    fn = getattr(model, method)
    fn = getattr(fn, '__func__', fn)
    while hasattr(fn, '__wrapped__'):
        fn = fn.__wrapped__
    return [fn.__code__]


# ----------------------------------------------------------------------------
# S4 - failing plug-in marginals (duck-typed on purpose, see DESIGN S4)
# ----------------------------------------------------------------------------

class FailingMarginal:
    """A marginal that delegates to a real family and fails on schedule.

    mode: 'first'  - raises at the 1st fit of any instance of this plug-in (selection pass)
          'second' - raises at the 2nd fit (the final fit of the winner)
          'always' - raises at every fit
          'nancdf' - fits, but its cdf returns NaN (an optimiser that returned garbage)
          'never'  - plain delegation
    The fit counter is shared by all instances created from one prototype, because
    get_instance() builds a new instance per use.
    """

    PARAMETRIC = None
    BOUNDED = None

    EXCEPTIONS = {'RuntimeError': RuntimeError, 'NotImplementedError': NotImplementedError,
                  'ValueError': ValueError, 'KeyError': KeyError, 'TypeError': TypeError,
                  'ZeroDivisionError': ZeroDivisionError, 'FloatingPointError': FloatingPointError,
                  'AssertionError': AssertionError, 'OverflowError': OverflowError}

    def __init__(self, base=None, mode='never', _shared=None, tag='P', exc='RuntimeError'):
        from copulas.utils import get_instance
        self._base_spec = base
        self.mode = mode
        self.tag = tag
        self._shared = _shared if _shared is not None else {'fits': 0, 'failed': 0, 'instances': 0}
        self._shared['instances'] += 1
        self._inner = get_instance(base)
        self.fitted = False
        self.random_state = None
        # what get_instance() uses to clone a prototype
        self.__args__ = ()
        self.exc = exc
        self.__kwargs__ = {'base': base, 'mode': mode, '_shared': self._shared, 'tag': tag,
                           'exc': exc}

    def fit(self, X):
        self._shared['fits'] += 1
        k = self._shared['fits']
        if self.mode == 'always' or (self.mode == 'first' and k == 1) or \
                (self.mode == 'second' and k == 2):
            self._shared['failed'] += 1
            raise self.EXCEPTIONS.get(self.exc, RuntimeError)(
                'injected plug-in failure (%s, fit #%d)' % (self.mode, k))
        self._inner.fit(X)
        self.fitted = True

    def cdf(self, X):
        if self.mode == 'nancdf':
            return np.full(np.shape(X), np.nan)
        return self._inner.cdf(X)

    cumulative_distribution = cdf

    def __getattr__(self, name):
        if name.startswith('__') or name == '_inner':
            raise AttributeError(name)
        return getattr(self._inner, name)

    def to_dict(self):
        return self._inner.to_dict()

    def __repr__(self):
        return 'FailingMarginal(%s,%s,%s)' % (self.tag, self._base_spec, self.mode)


# ----------------------------------------------------------------------------
# S6 - caller memory
# ----------------------------------------------------------------------------

def fingerprint(obj):
    """Byte-level fingerprint of a caller-owned argument object (recursive)."""
    if isinstance(obj, np.ndarray):
        return ('nd', obj.shape, str(obj.dtype), obj.strides, digest(obj))
    if isinstance(obj, pd.DataFrame):
        return ('df', tuple(str(c) for c in obj.columns), digest(np.asarray(obj.index)),
                tuple(str(t) for t in obj.dtypes), digest(obj))
    if isinstance(obj, pd.Series):
        return ('ser', str(obj.name), str(obj.dtype), digest(np.asarray(obj.index)), digest(obj))
    if isinstance(obj, dict):
        return ('dict', tuple((repr(k), fingerprint(v)) for k, v in obj.items()))
    if isinstance(obj, (list, tuple)):
        return (type(obj).__name__, tuple(fingerprint(v) for v in obj))
    if isinstance(obj, np.random.RandomState):
        return ('rs', digest(obj))
    return ('val', repr(canon(obj)))


# ----------------------------------------------------------------------------
# pristine process: reference computations that no state of this process can reach
# ----------------------------------------------------------------------------

class Pristine:
    """A child process forked at the start of a run (right after the library was freshly
    imported) that never executes library code itself: for every request it forks a
    grandchild, which imports the named function, calls it and sends the (picklable) result
    back.  A reference computed this way cannot be influenced by class-level or module-level
    state that the live objects of the run have touched since - and requests cannot influence
    each other."""

    def __init__(self):
        import pickle
        r1, w1 = os.pipe()
        r2, w2 = os.pipe()
        pid = os.fork()
        if pid == 0:
            try:
                os.close(w1)
                os.close(r2)
                fin, fout = os.fdopen(r1, 'rb'), os.fdopen(w2, 'wb')
                while True:
                    try:
                        msg = pickle.load(fin)
                    except EOFError:
                        break
                    if msg is None:
                        break
                    ra, wa = os.pipe()
                    gpid = os.fork()
                    if gpid == 0:
                        try:
                            os.close(ra)
                            try:
                                import importlib
                                mod = importlib.import_module(msg['module'])
                                res = ('ok', getattr(mod, msg['function'])(*msg['args']))
                            except BaseException as e:  # noqa: B902
                                res = ('harness', repr(e))
                            with os.fdopen(wa, 'wb') as f:
                                pickle.dump(res, f)
                        finally:
                            os._exit(0)
                    os.close(wa)
                    with os.fdopen(ra, 'rb') as f:
                        try:
                            data = f.read()
                        except Exception:
                            data = b''
                    os.waitpid(gpid, 0)
                    if not data:
                        data = pickle.dumps(('harness', 'grandchild died'))
                    fout.write(len(data).to_bytes(8, 'big') + data)
                    fout.flush()
            finally:
                os._exit(0)
        os.close(r1)
        os.close(w2)
        self.pid = pid
        self.fout, self.fin = os.fdopen(w1, 'wb'), os.fdopen(r2, 'rb')

    def call(self, module, function, *args):
        import pickle
        pickle.dump({'module': module, 'function': function, 'args': args}, self.fout)
        self.fout.flush()
        n = int.from_bytes(self.fin.read(8), 'big')
        status, value = pickle.loads(self.fin.read(n))
        if status != 'ok':
            raise RuntimeError('pristine process failed: %s' % (value,))
        return value

    def close(self):
        import pickle
        try:
            pickle.dump(None, self.fout)
            self.fout.flush()
            self.fout.close()
            self.fin.close()
        except Exception:
            pass
        try:
            os.waitpid(self.pid, 0)
        except Exception:
            pass
