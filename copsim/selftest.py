#!/venv/bin/python
"""Self-tests of the machinery itself (not registered as property checks).

  selftest.py determinism [--n N] [--props C15,C19]   same seeds twice in-process, once in a
        fresh interpreter under another PYTHONHASHSEED, once with another worker count;
        event-log digests must be identical.
  selftest.py sensitivity [--only id,id]   catalogue of deliberate breakages applied to a
        scratch copy of /repo/copulas (under /tmp, removed afterwards); each must be caught by
        the named check within the quick budget.  /repo itself is never touched.

Results are written to /verif/selftest/<name>.json.
"""

import argparse
import json
import os
import shutil
import subprocess
import sys
import tempfile
import time

ROOT = os.path.dirname(os.path.dirname(os.path.abspath(__file__)))
sys.path.insert(0, ROOT)
PY = sys.executable
CLAIMED = ['C01', 'C05', 'C09', 'C12', 'C14', 'C15', 'C16', 'C17', 'C19', 'C20']
OUT = os.path.join(ROOT, 'selftest')


# ----------------------------------------------------------------------------
# determinism
# ----------------------------------------------------------------------------

def _digests_here(prop, idxs, workers):
    from copsim import runner
    from copsim.core import DEFAULT_SEED
    pool = runner._pool(workers)
    try:
        futs = [pool.submit(runner._batch, prop, DEFAULT_SEED, 'quick', idxs[i:i + 5], set())
                for i in range(0, len(idxs), 5)]
        out = {}
        for f in futs:
            for res in f.result(timeout=1200):
                out[res['idx']] = res.get('digest', 'HARNESS:' + res.get('harness_error', '')[-200:])
        return out
    finally:
        pool.shutdown(wait=True)


def _digests_fresh(prop, idxs, hashseed, workers):
    env = dict(os.environ)
    env.update({'PYTHONHASHSEED': str(hashseed), 'COPSIM_PINNED': '1',
                'OPENBLAS_NUM_THREADS': '1', 'OMP_NUM_THREADS': '1', 'MKL_NUM_THREADS': '1'})
    code = ('import sys, json; sys.path.insert(0, %r); from copsim import selftest; '
            'print("DIGESTS" + json.dumps(selftest._digests_here(%r, %r, %d)))'
            % (ROOT, prop, idxs, workers))
    p = subprocess.run([PY, '-c', code], env=env, capture_output=True, text=True, timeout=3600)
    for line in p.stdout.splitlines():
        if line.startswith('DIGESTS'):
            return {int(k): v for k, v in json.loads(line[7:]).items()}
    raise RuntimeError('fresh interpreter failed: ' + p.stderr[-2000:])


def determinism(props, n):
    from copsim import runner
    report = {'n_per_property': n, 'properties': {}}
    bad = 0
    for prop in props:
        mod = runner.load_check(prop)
        n_fixed = len(runner._fixed_runs(mod, 'quick'))
        # a spread of fixed and random run indices
        idxs = list(range(0, min(n_fixed, n // 4))) + list(range(n_fixed, n_fixed + n))
        idxs = idxs[:n]
        t0 = time.time()
        a = _digests_here(prop, idxs, 16)
        b = _digests_here(prop, idxs, 16)
        c = _digests_fresh(prop, idxs, 12345, 3)
        d = _digests_fresh(prop, idxs, 777, 7)
        mism = [i for i in idxs if not (a.get(i) == b.get(i) == c.get(i) == d.get(i))]
        harness = [i for i in idxs if str(a.get(i)).startswith('HARNESS')]
        report['properties'][prop] = {
            'runs': len(idxs), 'executions': 4 * len(idxs), 'mismatching_run_indices': mism[:20],
            'harness_errors': harness[:20], 'wall_s': round(time.time() - t0, 1),
            'configurations': ['in-process 16 workers (twice)',
                               'fresh interpreter PYTHONHASHSEED=12345, 3 workers',
                               'fresh interpreter PYTHONHASHSEED=777, 7 workers']}
        bad += len(mism) + len(harness)
        print('%s: %d runs x 4 executions, %d digest mismatches, %d harness errors (%.0fs)'
              % (prop, len(idxs), len(mism), len(harness), time.time() - t0), flush=True)
    os.makedirs(OUT, exist_ok=True)
    with open(os.path.join(OUT, 'determinism.json'), 'w') as f:
        json.dump(report, f, indent=1, sort_keys=True)
    return 1 if bad else 0


# ----------------------------------------------------------------------------
# sensitivity catalogue
# ----------------------------------------------------------------------------

def M(mid, prop, path, old, new, needs='', runs=None):
    return {'id': mid, 'property': prop, 'file': path, 'old': old, 'new': new,
            'needs': needs, 'runs': runs}


CATALOGUE = [
    M('rng_no_restore', 'C15', 'utils.py',
      "        np.random.set_state(original_state)\n", "        pass\n",
      'any seeded sample'),
    M('rng_no_writeback', 'C15', 'utils.py',
      "        set_model_random_state(current_random_state)\n", "        pass\n",
      'two successive seeded samples'),
    M('rng_restore_not_in_finally', 'C15', 'utils.py',
      "    try:\n        yield\n    finally:\n        current_random_state = np.random.RandomState()\n"
      "        current_random_state.set_state(np.random.get_state())\n"
      "        set_model_random_state(current_random_state)\n"
      "        np.random.set_state(original_state)\n",
      "    yield\n    current_random_state = np.random.RandomState()\n"
      "    current_random_state.set_state(np.random.get_state())\n"
      "    set_model_random_state(current_random_state)\n"
      "    np.random.set_state(original_state)\n",
      'an exception inside a seeded sampler body'),
    M('kde_sample_undecorated', 'C15', 'univariate/gaussian_kde.py',
      "    @random_state\n    def sample(self, n_samples=1):", "    def sample(self, n_samples=1):",
      'a seeded GaussianKDE sample'),
    M('dataset_leaks_global_state', 'C15', 'datasets.py',
      "    with set_random_state(validate_random_state(seed), _dummy_fn):\n"
      "        return pd.Series(np.random.exponential(size=size) + 3.0)",
      "    np.random.seed(seed)\n"
      "    return pd.Series(np.random.exponential(size=size) + 3.0)",
      'the exponential dataset generator'),
    M('gmv_mean_ones', 'C01', 'multivariate/gaussian.py',
      "            means = np.zeros(len(columns))\n", "            means = np.ones(len(columns))\n",
      'unconditional sample'),
    M('gmv_cov_identity', 'C01', 'multivariate/gaussian.py',
      "            covariance = self.correlation\n",
      "            covariance = np.identity(len(self.columns))\n", 'unconditional sample'),
    M('gmv_columns_reversed', 'C01', 'multivariate/gaussian.py',
      "        return pd.DataFrame(data=output)\n",
      "        return pd.DataFrame(data=output)[list(output)[::-1]] if num_rows > 40 else "
      "pd.DataFrame(data=output)\n", 'n > 40'),
    M('cond_schur_plus', 'C12', 'multivariate/gaussian.py',
      "        sigma_bar = sigma11 - sigma12sigma22inv @ sigma21\n",
      "        sigma_bar = sigma11 + sigma12sigma22inv @ sigma21\n", 'conditional sample'),
    M('cond_no_inverse', 'C12', 'multivariate/gaussian.py',
      "        sigma12sigma22inv = sigma12 @ np.linalg.inv(sigma22)\n",
      "        sigma12sigma22inv = sigma12 @ sigma22\n", '>= 2 conditioning columns or ridge'),
    M('cond_mutates_dict', 'C12', 'multivariate/gaussian.py',
      "        return pd.DataFrame(data=output)\n",
      "        if isinstance(conditions, dict) and len(conditions) > 1:\n"
      "            conditions.pop(next(iter(conditions)))\n"
      "        return pd.DataFrame(data=output)\n", 'dict with >= 2 conditions'),
    M('biv_swapped_ppf_args', 'C09', 'bivariate/base.py',
      "        u = self.percent_point(c, v)\n", "        u = self.percent_point(v, c)\n", 'sample'),
    M('biv_returns_wrong_draw', 'C09', 'bivariate/base.py',
      "        return np.column_stack((u, v))\n", "        return np.column_stack((u, c))\n",
      'sample'),
    M('select_max_ks', 'C05', 'univariate/selection.py',
      "            if ks < best_ks:\n", "            if ks > best_ks or best_model is None:\n",
      '>= 2 surviving candidates'),
    M('no_gaussian_fallback', 'C05', 'multivariate/gaussian.py',
      "        except Exception as error:\n            univariate = self._fit_with_fallback_distribution(\n"
      "                column, distribution, column_name, error\n            )\n",
      "        except ZeroDivisionError as error:\n            univariate = self._fit_with_fallback_distribution(\n"
      "                column, distribution, column_name, error\n            )\n",
      'a marginal whose fit raises'),
    M('filter_ignores_bounded', 'C05', 'univariate/base.py',
      "            if bounded is not None and subclass.BOUNDED != bounded:\n                continue\n",
      "", 'a bounded filter'),
    M('biv_to_dict_drops_tau', 'C14', 'bivariate/base.py',
      "'theta': self.theta, 'tau': self.tau}", "'theta': self.theta, 'tau': None}",
      'sample after a round trip'),
    M('edge_theta_rounded', 'C14', 'multivariate/tree.py',
      "            'theta': self.theta,\n", "            'theta': round(float(self.theta), 3),\n",
      'vine round trip'),
    M('gmv_from_dict_columns_sorted', 'C14', 'multivariate/gaussian.py',
      "        columns = copula_dict['columns']\n        instance.columns = columns\n",
      "        columns = copula_dict['columns']\n        instance.columns = sorted(columns)\n",
      'column names not in sorted order'),
    M('direct_kth_tree_wrong_parent', 'C16', 'multivariate/tree.py',
      "            left_parent, right_parent = Edge.sort_edge([edges[k], edges[k + 1]])\n",
      "            left_parent, right_parent = Edge.sort_edge([edges[0], edges[k + 1]])\n",
      'direct vine, >= 4 columns, >= 2 trees'),
    M('regular_kth_tree_revisits_nodes', 'C16', 'multivariate/tree.py',
      "                    if k not in visited and k != x and self._check_constraint(edges[x], edges[k]):\n",
      "                    if k != x and self._check_constraint(edges[x], edges[k]):\n",
      'regular vine, >= 2 trees'),
    M('regular_first_tree_min', 'C16', 'multivariate/tree.py',
      "            edge = sorted(adj_set, key=lambda e: neg_tau[e[0]][e[1]])[0]\n",
      "            edge = sorted(adj_set, key=lambda e: neg_tau[e[0]][e[1]])[-1]\n",
      'regular vine'),
    M('truncation_off_by_one', 'C16', 'multivariate/vine.py',
      "        for k in range(1, min(self.n_var - 1, self.truncated)):\n",
      "        for k in range(1, min(self.n_var - 1, self.truncated + 1)):\n",
      'truncation < d - 1'),
    M('edge_U_rows_swapped', 'C17', 'multivariate/tree.py',
      "            edge.U = np.array([left_given_right, right_given_left])\n",
      "            edge.U = np.array([right_given_left, left_given_right])\n", '>= 3 columns'),
    M('likelihood_without_log', 'C17', 'multivariate/tree.py',
      "            values[0, i] = np.log(value)\n", "            values[0, i] = value\n",
      'get_likelihood'),
    M('vine_sample_ignores_copula', 'C17', 'multivariate/vine.py',
      "                        tmp = min(max(tmp, EPSILON), 0.99)\n",
      "                        tmp = min(max(unis[current], EPSILON), 0.99)\n",
      'two-column sample'),
    M('vine_refit_keeps_trees', 'C19', 'multivariate/vine.py',
      "        self.trees = []\n\n        self.unis, self.ppfs = [], []\n",
      "        self.trees = getattr(self, 'trees', [])\n\n        self.unis, self.ppfs = [], []\n",
      'second fit of a vine'),
    M('get_instance_drops_kwargs', 'C19', 'utils.py',
      "            kwargs = getattr(obj, '__kwargs__', {})\n", "            kwargs = {}\n",
      'get_instance(instance with options)'),
    M('nan_check_skipped', 'C19', 'utils.py',
      "        if np.isnan(W).any().any():\n            raise ValueError('There are nan values in your data.')\n",
      "", 'table with NaN'),
    M('kde_refit_keeps_sample_size', 'C19', 'univariate/gaussian_kde.py',
      "        self._sample_size = self._requested_sample_size\n        if self._sample_size:",
      "        if self._sample_size:", 'refit of a GaussianKDE'),
    M('viz_no_copy', 'C20', 'visualization.py',
      "    data = data.copy()\n    data['Data'] = 'Real'\n\n    if not title:\n        title = 'Data'\n"
      "        if columns:\n            title += f\" for columns '{columns[0]}' and '{columns[1]}'\"",
      "    data['Data'] = 'Real'\n\n    if not title:\n        title = 'Data'\n"
      "        if columns:\n            title += f\" for columns '{columns[0]}' and '{columns[1]}'\"",
      'scatter_2d'),
    M('check_marginal_sorts_in_place', 'C20', 'bivariate/base.py',
      "        emperical_cdf = np.sort(u)\n", "        u.sort()\n        emperical_cdf = u\n",
      'Bivariate.fit / select_copula on a caller array'),
    M('from_dict_pops_callers_type', 'C20', 'univariate/base.py',
      "        params = params.copy()\n        distribution = get_instance(params.pop('type'))",
      "        distribution = get_instance(params.pop('type'))", 'from_dict twice with one dict'),
    M('compare_drops_last_synthetic_row', 'C20', 'visualization.py',
      "    data = pd.concat([real, synth], axis=0, ignore_index=True)\n\n"
      "    if not title:\n        title = 'Real vs. Synthetic Data'\n        if columns:\n"
      "            title += f\" for columns '{columns[0]}' and '{columns[1]}'\"",
      "    data = pd.concat([real, synth.iloc[:-1]], axis=0, ignore_index=True)\n\n"
      "    if not title:\n        title = 'Real vs. Synthetic Data'\n        if columns:\n"
      "            title += f\" for columns '{columns[0]}' and '{columns[1]}'\"",
      'compare_2d'),
]


def sensitivity(only=None, repo='/repo'):
    os.makedirs(OUT, exist_ok=True)
    results = []
    missed = 0
    for m in CATALOGUE:
        if only and m['id'] not in only:
            continue
        scratch = tempfile.mkdtemp(prefix='copsim_mut_', dir='/tmp')
        try:
            shutil.copytree(os.path.join(repo, 'copulas'), os.path.join(scratch, 'copulas'))
            path = os.path.join(scratch, 'copulas', m['file'])
            src = open(path).read()
            if src.count(m['old']) != 1:
                results.append(dict(m, status='NOT-APPLICABLE',
                                    note='pattern found %d times' % src.count(m['old'])))
                print('%-34s %s pattern found %d times' % (m['id'], m['property'],
                                                           src.count(m['old'])), flush=True)
                missed += 1
                continue
            with open(path, 'w') as f:
                f.write(src.replace(m['old'], m['new']))
            env = dict(os.environ)
            env['COPULAS_REPO'] = scratch
            env['COPSIM_MAX_REPORT'] = '1'
            env['COPSIM_FIRST_ONLY'] = '1'
            cmd = [PY, os.path.join(ROOT, 'vcheck.py'), m['property'], '--tier', 'quick']
            if m.get('runs'):
                cmd += ['--runs', str(m['runs'])]
            t0 = time.time()
            p = subprocess.run(cmd, env=env, capture_output=True, text=True, timeout=1800)
            lines = [ln for ln in p.stdout.splitlines()
                     if ln.startswith('VIOLATION') or ln.strip().startswith('oracle=')
                     or 'x oracle=' in ln or ln.startswith('HARNESS')]
            caught = p.returncode == 1 and any(ln.startswith('VIOLATION') for ln in lines)
            status = 'CAUGHT' if caught else ('HARNESS-ERROR' if p.returncode == 2 else 'MISSED')
            if not caught:
                missed += 1
            results.append({k: m[k] for k in ('id', 'property', 'file', 'needs')} | {
                'status': status, 'exit': p.returncode, 'wall_s': round(time.time() - t0, 1),
                'classes': [ln.strip() for ln in lines if 'x oracle=' in ln][:6]})
            print('%-34s %s %-8s %.0fs %s' % (m['id'], m['property'], status, time.time() - t0,
                                              '; '.join(ln.strip()[:110] for ln in lines
                                                        if 'x oracle=' in ln)[:240]), flush=True)
        finally:
            shutil.rmtree(scratch, ignore_errors=True)
    path = os.path.join(OUT, 'sensitivity.json')
    if only and os.path.exists(path):
        old = json.load(open(path))['mutants']
        ids = {r['id'] for r in results}
        known = {m['id'] for m in CATALOGUE}
        results = [r for r in old if r['id'] not in ids and r['id'] in known] + results
        missed = sum(1 for r in results if r.get('status') != 'CAUGHT')
    with open(path, 'w') as f:
        json.dump({'mutants': results, 'missed': missed}, f, indent=1, sort_keys=True)
    # replays written while hunting mutants are not findings about /repo
    return 1 if missed else 0


def main():
    ap = argparse.ArgumentParser()
    ap.add_argument('what', choices=['determinism', 'sensitivity'])
    ap.add_argument('--n', type=int, default=200)
    ap.add_argument('--props', default=','.join(CLAIMED))
    ap.add_argument('--only', default='')
    a = ap.parse_args()
    os.environ.setdefault('PYTHONHASHSEED', '0')
    if a.what == 'determinism':
        return determinism([p for p in a.props.split(',') if p], a.n)
    return sensitivity(set(x for x in a.only.split(',') if x) or None)


if __name__ == '__main__':
    if os.environ.get('PYTHONHASHSEED') != '0' and not os.environ.get('COPSIM_PINNED'):
        env = dict(os.environ, PYTHONHASHSEED='0', COPSIM_PINNED='1', OPENBLAS_NUM_THREADS='1',
                   OMP_NUM_THREADS='1', MKL_NUM_THREADS='1', PYTHONDONTWRITEBYTECODE='1')
        os.execve(PY, [PY] + sys.argv, env)
    sys.exit(main())
