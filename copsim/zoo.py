"""Populations: data and model specifications (plain JSON) and their builders.

Data are produced by *local* RandomState instances derived from the spec, never
from the global generator."""

import copy

import numpy as np
import pandas as pd

UNI_FAMILIES = [
    'copulas.univariate.gaussian.GaussianUnivariate',
    'copulas.univariate.beta.BetaUnivariate',
    'copulas.univariate.gamma.GammaUnivariate',
    'copulas.univariate.gaussian_kde.GaussianKDE',
    'copulas.univariate.log_laplace.LogLaplace',
    'copulas.univariate.student_t.StudentTUnivariate',
    'copulas.univariate.truncated_gaussian.TruncatedGaussian',
    'copulas.univariate.uniform.UniformUnivariate',
]
UNI_WRAPPER = 'copulas.univariate.base.Univariate'
FAST_UNI = [
    'copulas.univariate.gaussian.GaussianUnivariate',
    'copulas.univariate.uniform.UniformUnivariate',
    'copulas.univariate.gaussian_kde.GaussianKDE',
]
BIV_FAMILIES = [
    'copulas.bivariate.clayton.Clayton',
    'copulas.bivariate.frank.Frank',
    'copulas.bivariate.gumbel.Gumbel',
]
GAUSSIAN_MV = 'copulas.multivariate.gaussian.GaussianMultivariate'
VINE = 'copulas.multivariate.vine.VineCopula'
VINE_TYPES = ['center', 'direct', 'regular']


def short(name):
    return name.rsplit('.', 1)[-1]


def load_class(name):
    import importlib
    mod, cls = name.rsplit('.', 1)
    return getattr(importlib.import_module(mod), cls)


def kind_of(cls_name):
    if cls_name in UNI_FAMILIES or cls_name == UNI_WRAPPER:
        return 'uni'
    if cls_name in BIV_FAMILIES:
        return 'biv'
    if cls_name == GAUSSIAN_MV:
        return 'gmv'
    if cls_name == VINE:
        return 'vine'
    raise ValueError(cls_name)


# ----------------------------------------------------------------------------
# data
# ----------------------------------------------------------------------------

UNI_GENS = ['normal', 'uniform', 'gamma', 'beta', 'bimodal', 'expshift', 'lognormal', 'constant']


def gen_uni(spec):
    """1-d float array from a spec {'gen','n','seed','loc','scale'}."""
    rs = np.random.RandomState(spec['seed'] % (2**32))
    n = spec['n']
    loc = spec.get('loc', 0.0)
    scale = spec.get('scale', 1.0)
    g = spec['gen']
    if g == 'normal':
        x = rs.normal(size=n)
    elif g == 'uniform':
        x = rs.uniform(-1, 1, size=n)
    elif g == 'gamma':
        x = rs.gamma(2.0, 1.0, size=n)
    elif g == 'beta':
        x = rs.beta(2.0, 5.0, size=n)
    elif g == 'bimodal':
        x = np.where(rs.uniform(size=n) < 0.4, rs.normal(size=n), rs.normal(size=n) + 6.0)
    elif g == 'expshift':
        x = rs.exponential(size=n) + 3.0
    elif g == 'lognormal':
        x = np.exp(rs.normal(size=n) * 0.5)
    elif g == 'binary':
        x = (rs.uniform(size=n) < 0.3).astype(float)
    elif g == 'constant':
        x = np.zeros(n)
    else:
        raise ValueError(g)
    return x * scale + loc


def _quantile_transform(u, marg, rs):
    from scipy import stats
    if marg == 'normal':
        return stats.norm.ppf(u)
    if marg == 'uniform':
        return 2 * u - 1
    if marg == 'gamma':
        return stats.gamma.ppf(u, 2.0)
    if marg == 'beta':
        return stats.beta.ppf(u, 2.0, 5.0)
    if marg == 'expshift':
        return stats.expon.ppf(u) + 3.0
    if marg == 'bimodal':
        z = stats.norm.ppf(u)
        return np.where(z < -0.25, z * 0.8 - 1.0, z * 0.8 + 5.0)
    if marg == 'lognormal':
        return np.exp(0.5 * stats.norm.ppf(u))
    if marg == 'constant':
        return np.full(len(u), 2.5)
    if marg == 'constant0':
        return np.zeros(len(u))
    if marg == 'constant_bigint':
        # an int64 constant that float64 cannot hold exactly (epoch nanoseconds)
        return np.full(len(u), 1600000000123456789, dtype=np.int64)
    raise ValueError(marg)


def random_corr(rs, d, strength=1.0):
    """Random positive-definite correlation matrix."""
    A = rs.normal(size=(d, d + 1))
    S = A @ A.T
    if strength < 1.0:
        S = strength * S + (1 - strength) * np.diag(np.diag(S))
    s = np.sqrt(np.diag(S))
    R = S / np.outer(s, s)
    np.fill_diagonal(R, 1.0)
    return R


def gen_table(spec):
    """DataFrame from a Gaussian copula with the given marginals.

    spec: {'n','seed','margs':[...], 'pattern': 'random'|'chain'|'star'|'equi'|'indep'|'neg'|'dup',
           'names': optional list}
    """
    from scipy import stats
    rs = np.random.RandomState(spec['seed'] % (2**32))
    margs = spec['margs']
    d = len(margs)
    n = spec['n']
    pattern = spec.get('pattern', 'random')
    if pattern == 'random':
        R = random_corr(rs, d)
    elif pattern == 'weak':
        R = random_corr(rs, d, 0.3)
    elif pattern == 'chain':
        rho = 0.75
        R = np.array([[rho ** abs(i - j) for j in range(d)] for i in range(d)])
    elif pattern == 'star':
        R = np.eye(d)
        for j in range(1, d):
            R[0, j] = R[j, 0] = 0.6
        for i in range(1, d):
            for j in range(1, d):
                if i != j:
                    R[i, j] = 0.36
    elif pattern == 'equi':
        R = np.full((d, d), 0.5)
        np.fill_diagonal(R, 1.0)
    elif pattern == 'indep':
        R = np.eye(d)
    elif pattern == 'neg':
        R = np.array([[(-0.6) ** abs(i - j) for j in range(d)] for i in range(d)])
    elif pattern == 'dup':
        R = random_corr(rs, d)
    else:
        raise ValueError(pattern)
    L = np.linalg.cholesky(R + 1e-12 * np.eye(d))
    Z = rs.normal(size=(n, d)) @ L.T
    U = stats.norm.cdf(Z)
    cols = {}
    names = spec.get('names') or ['c%d' % i for i in range(d)]
    affine = spec.get('affine')
    for j, marg in enumerate(margs):
        col = _quantile_transform(U[:, j], marg, rs)
        if affine:
            col = col * affine[j][1] + affine[j][0]
        cols[names[j]] = col
    df = pd.DataFrame(cols)
    if pattern == 'dup' and d >= 2:
        df[names[-1]] = df[names[0]].to_numpy() * 2.0 + 1.0
    return decorate_index(df, spec.get('index', 'range')), R


INDEX_KINDS = ['shifted', 'labels', 'reversed', 'filtered', 'samelabel']


def decorate_index(df, kind):
    """The training frame as a caller really has it: rows filtered out of a larger frame, an
    index that does not start at 0, string labels, descending labels, or one label repeated.
    The row VALUES and their order are untouched, so every law about the rows still applies;
    code that mixes up labels and positions does not survive it."""
    if kind in (None, 'range'):
        return df
    n = len(df)
    if kind == 'shifted':
        df.index = np.arange(n) + 1000
    elif kind == 'labels':
        df.index = ['row%d' % i for i in range(n)]
    elif kind == 'reversed':
        df.index = np.arange(n)[::-1]
    elif kind == 'filtered':
        df.index = np.arange(n) * 3 + 1
    elif kind == 'samelabel':
        df.index = np.zeros(n, dtype=int)
    else:
        raise ValueError(kind)
    return df


def with_index(spec):
    """Give a table spec an index kind, derived from the spec's own seed (the run generator's
    PRNG is not consulted, so the rest of the generated population is unchanged)."""
    from copsim.core import derive_seed
    h = derive_seed('index', spec['seed'], spec['n'])
    if h % 100 < 35:
        spec['index'] = INDEX_KINDS[(h // 100) % len(INDEX_KINDS)]
    return spec


def gen_pseudo_obs(spec):
    """(n,2) pseudo-observations with roughly the requested Kendall tau (Gaussian copula)."""
    from scipy import stats
    rs = np.random.RandomState(spec['seed'] % (2**32))
    tau = spec['tau']
    rho = np.sin(np.pi * tau / 2)
    n = spec['n']
    z1 = rs.normal(size=n)
    z2 = rho * z1 + np.sqrt(max(1 - rho * rho, 0.0)) * rs.normal(size=n)
    return np.column_stack([stats.norm.cdf(z1), stats.norm.cdf(z2)])


def gen_data(spec):
    k = spec['kind']
    if k == 'uni':
        return gen_uni(spec)
    if k == 'table':
        return gen_table(spec)[0]
    if k == 'pobs':
        return gen_pseudo_obs(spec)
    raise ValueError(k)


# ----------------------------------------------------------------------------
# seeds
# ----------------------------------------------------------------------------

def make_seed(seedspec, shared=None):
    """None | {'kind':'int','v':..} | {'kind':'rs','v':..} | {'kind':'shared','ref':..}"""
    if seedspec is None:
        return None
    k = seedspec['kind']
    if k == 'int':
        return int(seedspec['v'])
    if k == 'rs':
        return np.random.RandomState(int(seedspec['v']))
    if k == 'shared':
        if shared is None:
            return np.random.RandomState(int(seedspec['v']))
        return shared.setdefault(seedspec['ref'], np.random.RandomState(int(seedspec['v'])))
    raise ValueError(k)


def rand_seedspec(rng, allow_none=True, allow_shared=False):
    r = rng.random()
    if allow_none and r < 0.25:
        return None
    if allow_shared and r < 0.35:
        return {'kind': 'shared', 'ref': 'rs%d' % rng.randrange(2), 'v': rng.randrange(1000)}
    if r < 0.7:
        return {'kind': 'int', 'v': rng.randrange(2**31)}
    return {'kind': 'rs', 'v': rng.randrange(2**31)}


# ----------------------------------------------------------------------------
# models
# ----------------------------------------------------------------------------

def build_model(spec, shared=None, seed=True):
    """Instantiate (unfitted) the model described by spec = {'cls', 'ctor', 'seed'}."""
    cls = load_class(spec['cls'])
    ctor = dict(spec.get('ctor') or {})
    ctor = decode_ctor(ctor)
    if seed:
        rs = make_seed(spec.get('seed'), shared)
        if rs is not None:
            ctor['random_state'] = rs
    return cls(**ctor)


def gen_weights(spec):
    """Observation weights for a kernel estimate: {'n', 'seed', 'kind'}; 'tilt' grows with the
    row number, 'sparse' gives most of the mass to a few rows, 'int' is an integer array."""
    n = int(spec['n'])
    rs = np.random.RandomState(spec.get('seed', 0) % (2**32))
    kind = spec.get('kind', 'tilt')
    if kind == 'tilt':
        return np.linspace(0.2, 3.0, n) * rs.uniform(0.8, 1.2, size=n)
    if kind == 'sparse':
        w = np.full(n, 0.05)
        w[rs.choice(n, size=max(2, n // 10), replace=False)] = 5.0
        return w
    if kind == 'int':
        return rs.randint(1, 6, size=n).astype(np.int64)
    raise ValueError(kind)


class ConfigMap(dict):
    """A caller's own dict subclass (a per-column configuration read from a settings file)."""


MAP_KINDS = ['dict', 'dict', 'dict', 'ordered', 'subclass']


def make_map(items, kind=None):
    """The mapping container a caller may legitimately hand over: any dict."""
    if kind in (None, 'dict'):
        return dict(items)
    if kind == 'ordered':
        import collections
        return collections.OrderedDict(items)
    if kind == 'subclass':
        return ConfigMap(items)
    raise ValueError(kind)


def mapkind_for(*key):
    """Container kind derived from the content (the run generator's PRNG is not consulted)."""
    from copsim.core import derive_seed
    return MAP_KINDS[derive_seed('mapkind', *key) % len(MAP_KINDS)]


def decode_ctor(ctor):
    out = {}
    for k, v in ctor.items():
        if isinstance(v, dict) and '__cls__' in v:
            out[k] = load_class(v['__cls__'])
        elif isinstance(v, dict) and '__inst__' in v:
            out[k] = load_class(v['__inst__'])(**decode_ctor(v.get('ctor') or {}))
        elif isinstance(v, dict) and '__enum__' in v:
            mod, name, member = v['__enum__']
            out[k] = getattr(load_class(mod + '.' + name), member)
        elif isinstance(v, dict) and '__map__' in v:
            out[k] = make_map({kk: decode_ctor({'x': vv})['x'] for kk, vv in v['__map__'].items()},
                              v.get('__mapkind__'))
        elif isinstance(v, list) and k == 'candidates':
            out[k] = [decode_ctor({'x': c})['x'] for c in v]
        elif isinstance(v, dict) and v.get('__gen__') == 'weights':
            out[k] = gen_weights(v)
        elif isinstance(v, dict) and '__nd__' in v:
            out[k] = np.array(v['__nd__'], dtype=float)
        elif isinstance(v, dict) and '__ndint__' in v:
            out[k] = np.array(v['__ndint__'], dtype=np.int64)
        else:
            out[k] = v
    return out


def fit_model(model, spec, data, poison=None):
    """Fit according to kind; vines take the truncation from the spec.  Vine code reads
    np.empty buffers, so it always runs under a simulator-chosen allocator content
    (default: zeros) - never under whatever the real allocator happens to return."""
    kind = kind_of(spec['cls'])
    if kind == 'vine':
        from copsim.seams import Poison
        if spec.get('vine_model'):
            model.model = load_class(spec['vine_model'])
        with Poison(poison or spec.get('poison', 'zero'), seed=spec.get('poison_seed', 0)):
            model.fit(data, truncated=spec.get('truncated', 3))
    else:
        model.fit(data)
    return model


def rand_uni_dataspec(rng, n_lo=30, n_hi=80, allow_constant=True):
    gens = UNI_GENS if allow_constant else UNI_GENS[:-1]
    spec = {'kind': 'uni', 'gen': rng.choice(gens), 'n': rng.randint(n_lo, n_hi),
            'seed': rng.randrange(2**31), 'loc': round(rng.uniform(-5, 5), 3),
            'scale': round(10 ** rng.uniform(-1, 1.5), 4)}
    if spec['gen'] == 'constant':
        # the value 0 is the interesting constant (falsy): make it frequent
        spec['loc'] = rng.choice([0.0, 0.0, 2.5, -1.175, spec['loc']])
    return spec


def rand_table_spec(rng, d_lo=2, d_hi=4, n_lo=40, n_hi=80, margs=None, constant_p=0.15,
                    patterns=('random', 'chain', 'star', 'equi', 'indep', 'neg', 'weak')):
    d = rng.randint(d_lo, d_hi)
    pool = margs or ['normal', 'uniform', 'gamma', 'beta', 'expshift', 'bimodal', 'lognormal']
    ms = []
    for _ in range(d):
        ms.append(rng.choice(['constant', 'constant0']) if rng.random() < constant_p
                  else rng.choice(pool))
    if all(m.startswith('constant') for m in ms):
        ms[0] = 'normal'
    return with_index({'kind': 'table', 'n': rng.randint(n_lo, n_hi),
                       'seed': rng.randrange(2**31), 'margs': ms,
                       'pattern': rng.choice(list(patterns))})


def clone(obj):
    return copy.deepcopy(obj)
