#!/venv/bin/python
"""Run the repository's pinned baseline (guard OFF) and compare with /root/.vp/BASELINE.json.
Exit 0 iff every stable_pass test still passes."""
import json, os, subprocess, sys, tempfile
import xml.etree.ElementTree as ET

base = json.load(open('/root/.vp/BASELINE.json'))
want = set(base['stable_pass'])
out = tempfile.mktemp(suffix='.xml', dir='/tmp')
env = dict(os.environ)
env.pop('COPULAS_VERIF', None)
REPO = os.environ.get('BASELINE_REPO', '/repo')
if REPO != '/repo':
    env['PYTHONPATH'] = REPO
jobs = os.environ.get('BASELINE_JOBS', '8')
cmd = ['/venv/bin/python', '-m', 'pytest', '-q', '-p', 'no:cacheprovider', '--timeout=900',
       '--continue-on-collection-errors', '-n', jobs, '--junitxml=' + out]
p = subprocess.run(cmd, cwd=REPO, env=env, capture_output=True, text=True)
passed = set()
for tc in ET.parse(out).getroot().iter('testcase'):
    if not any(c.tag in ('failure', 'error', 'skipped') for c in tc):
        passed.add(tc.get('classname') + '::' + tc.get('name').replace(REPO + '/', '/repo/'))
os.unlink(out)
missing = sorted(want - passed)


def nodeid(t):
    cls, name = t.split('::', 1)
    parts = cls.split('.')
    for k in range(len(parts), 0, -1):
        f = os.path.join(REPO, *parts[:k]) + '.py'
        if os.path.exists(f):
            return '::'.join([os.path.join(*parts[:k]) + '.py'] + parts[k:] + [name])
    return None


# statistical tests on unseeded data are occasionally flaky: retry a missing test alone
still = []
for t in missing:
    nid = nodeid(t)
    ok = False
    for _ in range(3):
        if nid and subprocess.run(['/venv/bin/python', '-m', 'pytest', '-q', '-p', 'no:cacheprovider', nid],
                                  cwd=REPO, env=env, capture_output=True).returncode == 0:
            ok = True
            break
    print('  RETRY %s -> %s' % (t, 'pass' if ok else 'FAIL'))
    if not ok:
        still.append(t)
missing = still
print('passed=%d baseline=%d missing=%d newly_passing=%d' % (len(passed), len(want), len(missing), len(passed - want)))
for m in missing[:40]:
    print('  MISSING', m)
sys.exit(1 if missing else 0)
