#!/venv/bin/python
"""Regenerate /verif/MANIFEST.json from the table below and validate it against the schema.
A claimed property is listed under checks only when checks/<id>.py exists."""
import json
import os
import sys

ROOT = os.path.dirname(os.path.dirname(os.path.abspath(__file__)))

NA = {
    'C02': 'Pure function of (training table, marginal configuration): no draw, uninitialised '
           'buffer, file, injected failure, call history or schedule enters the fitted '
           'correlation matrix, so there is nothing for a simulator to schedule or fault '
           '(DESIGN.md section 2).',
    'C03': 'CDF/PDF/quantile laws are identities over (data, options, evaluation points); '
           'pure functions with no nondeterminism or fault surface. The only history clause '
           '(constant <-> non-constant refits) is decided under C19.',
    'C04': 'Estimator accuracy against the generating law is a statistical statement about a '
           'pure function of the sample; no schedule, clock, fault or interleaving in it.',
    'C06': 'Copula axioms of closed-form CDFs in (theta,u,v): pure arithmetic, not a '
           'simulation target.',
    'C07': 'Derivative/integral consistency of closed forms in (theta,u,v): pure arithmetic.',
    'C08': 'percent_point inverting partial_derivative is a pure inverse-function identity in '
           '(theta,y,v); it is used as an ingredient of the C09 oracle, not decided.',
    'C10': 'fit calibrates theta from Kendall tau or raises: a pure function of X.',
    'C11': 'select_copula is a deterministic pure function of X; family recovery is a '
           'statistical statement over datasets, not over schedules or faults.',
    'C13': 'Density/CDF equal the normal-score MVN in any container: pure function of '
           '(model, X) up to integration noise; the hidden RNG use of scipy\'s CDF is handled '
           'as foreign activity in C15, no clause of C13 is about it.',
    'C18': 'The vectorised root finders are pure functions of (f, brackets); lanes run in '
           'lock-step with no scheduling freedom, no I/O and no shared state (the only '
           'caller-memory clause, bracket arrays being written to, is decided under C20).',
}

CLAIMED = {
    'C01': ('RNG-seam draw refinement + distribution-free bands',
            'The recorded multivariate_normal draw at the RNG seam must be N(0, fitted R) and every '
            'output column the marginal-inverse transform of exactly that draw, over seeded '
            'populations of tables/configurations/seed kinds with foreign activity on the global '
            'generator between calls; DKW/Hoeffding bands (false alarm <= 1e-9 per run) as '
            'protocol-independent fallback; kernel-estimate marginals compared with the weighted '
            'kernel mixture recomputed from their parameters. Sampled, not exhaustive.',
            'Correctness of percent_point/cdf (C03) and of the correlation estimate (C02) is '
            'assumed; numpy MT19937, scipy.stats.norm trusted.', '4/C01'),
    'C05': ('fault-schedule simulation of failing plug-in marginals',
            'Simulator-owned duck-typed marginals fail on schedule (first fit, final fit, always, '
            'NaN CDF); all survivor patterns of <= 4 failing candidates are enumerated per data '
            'set; the selected family must be the arg-min KS among survivors recomputed fault-free, '
            'GaussianMultivariate must fall back to a Gaussian and still fit.',
            'scipy.stats.kstest trusted; ties accepted either way.', '4/C05'),
    'C09': ('RNG-seam Rosenblatt refinement + distribution-free bands',
            'The two recorded uniform draws must reappear as (v, h(u|v)) of the output through an '
            'independently written closed-form h-function; DKW / Hoeffding / Naaman bands at large '
            'n as fallback, false alarm <= 1e-9 per run.',
            'Independent closed-form h-functions and CDFs in copsim/refs.py are trusted.', '4/C09'),
    'C12': ('RNG-seam refinement of the conditional draw',
            'Arguments of the recorded conditional multivariate_normal call must equal the '
            'independent Schur-complement reference; fixed columns, caller-owned conditions '
            'untouched and reusable; bands as fallback.',
            'Reference linear algebra (numpy.linalg.solve) trusted; marginal cdf/ppf assumed (C03).',
            '4/C12'),
    'C14': ('history simulation over a fault-injecting in-memory filesystem',
            'Seeded chains of 1-5 serialisation hops (dict, generic dispatch, JSON, save/load on a '
            'simulated filesystem with ENOSPC/EIO/EACCES at open/write/close and overwrites) '
            'compared after every hop with the original by behavioural twin equality including '
            'the sample stream under equal random state.',
            'A bug shared by original and copy (wrong maths) is invisible; pickle/json trusted.',
            '4/C14'),
    'C15': ('interleaving simulation of clients on the shared global RNG with crash-point injection',
            'A seeded scheduler interleaves 1-4 live models of every sampler class with an '
            'application client on the one process-global generator and injects '
            'ValueError/MemoryError/KeyboardInterrupt at crash points inside sampler bodies; '
            'bit-exact global-state preservation and isolated-twin stream equality after every '
            'operation, against an in-process twin and a twin forked into its own process '
            '(immune to class-level or module-level shared state); crash points of one '
            'representative call per sampler class enumerated (all of them in the thorough '
            'tier); a fit must leave the generator stored from the constructor seed untouched.',
            'Twin and live run the same code; thread-level interleavings inside the swap are out '
            'of scope; scipy internal draws seen only through state digests.', '4/C15'),
    'C16': ('allocator-fault simulation + independent regular-vine checker',
            'Every vine fitted from seeded tables (2-7 columns, |tau| patterns incl. ties) is '
            'checked by an independent regular-vine validity checker under >= 3 contents of '
            'uninitialised memory chosen by the simulator; vine type x truncation enumerated per '
            'table; a third of the vines is inspected again after sample/likelihood/export and '
            'after reading the export back.',
            'select_copula taken as given (C11); scipy.stats.kendalltau trusted.', '4/C16'),
    'C17': ('allocator-fault differential + RNG-seam refinement',
            'Edge data flow recomputed independently; get_likelihood must be bit-identical under '
            'different contents of uninitialised memory and equal the independent recursion; '
            'two-column sampling refined on the recorded draws.',
            'Closed-form h-functions/densities in copsim/refs.py trusted.', '4/C17'),
    'C19': ('call-history simulation against a history-free twin',
            'Seeded histories of fits (constant/non-constant/refusing/invalid data, injected '
            'plug-in failures, differing allocator garbage) on every model class; after the last '
            'fit the live model must be observably identical to a fresh model fitted once, also '
            'after the object was used between fits or a fit was interrupted at a crash point, '
            'the fresh model being fitted under another state of the global generator; '
            'misuse must raise NotFittedError/ValueError per the reference model.',
            'Twin and live run the same code: a fit that is wrong but history-independent is '
            'invisible (C03/C04).', '4/C19'),
    'C20': ('caller-memory fingerprint simulation with argument re-use',
            'Every public entry point is called twice with the same simulator-owned argument '
            'objects (ndarray/DataFrame/Series/dict/list, several dtypes/layouts) under the same '
            'pinned RNG state; byte-level fingerprints before/after, equal results, and figure '
            'contents checked against the rows.',
            'Aliasing (a result that is a view of an input) is not flagged; plotly trusted to '
            'hold the data it is given.', '4/C20'),
}


def main():
    checks = []
    na = [{'property_id': k, 'reason': v} for k, v in sorted(NA.items())]
    for pid, (tech, text, note, ref) in sorted(CLAIMED.items()):
        if not os.path.exists(os.path.join(ROOT, 'checks', pid.lower() + '.py')):
            na.append({'property_id': pid,
                       'reason': 'applicable (see DESIGN.md) but its check is not built yet; '
                                 'not claimed until checks/%s.py exists' % pid.lower()})
            continue
        checks.append({
            'property_id': pid,
            'quick_cmd': '/venv/bin/python /verif/vcheck.py %s --tier quick' % pid,
            'thorough_cmd': '/venv/bin/python /verif/vcheck.py %s --tier thorough' % pid,
            'evidence_file': '/verif/evidence/%s.json' % pid,
            'replay_cmd_template': '/venv/bin/python /verif/vcheck.py %s --replay {path}' % pid,
            'engine': 'copsim',
            'level_claimed': {'category': 'exploration', 'text': text,
                              'design_ref': 'DESIGN.md section ' + ref},
            'level_note': note,
            'technique': 'deterministic simulation with fault injection: ' + tech,
        })
    manifest = {
        'version': 1,
        'setup_cmd': '/venv/bin/python /verif/tools/setup_check.py',
        'hooks': {
            'guard': 'COPULAS_VERIF',
            'enable': 'none needed: every seam is installed from outside /repo by monkeypatching '
                      '(vcheck.py sets COPULAS_VERIF=1 for form only); copulas is an editable '
                      'install, so checks always run /repo\'s current working tree',
            'baseline_off_cmd': 'cd /repo && env -u COPULAS_VERIF /venv/bin/python -m pytest -ra -q '
                                '-p no:cacheprovider --timeout=900 --continue-on-collection-errors',
            'source_commits': [],
            'add_only': True,
        },
        'engines': [{
            'name': 'copsim',
            'path': '/verif/copsim',
            'serves_properties': [c['property_id'] for c in checks],
            'kind_free_text': 'seeded deterministic simulator: op-list generator, RNG/allocator/'
                              'filesystem/plug-in/crash-point seams, twins, ddmin shrinker, '
                              'replay files',
        }],
        'checks': checks,
        'not_applicable': sorted(na, key=lambda d: d['property_id']),
        'notes': 'Technique family: deterministic simulation with fault injection only. '
                 'Exit 2 + HARNESS-ERROR = the machinery itself failed and no replayable violation '
                 'was found next to it (a harness failure is never turned into a VIOLATION). '
                 'Known findings: /verif/known_findings.txt (read-only at run time).',
    }
    path = os.path.join(ROOT, 'MANIFEST.json')
    with open(path, 'w') as f:
        json.dump(manifest, f, indent=1)
        f.write('\n')
    import jsonschema
    schema = json.load(open('/root/.vp/MANIFEST.schema.json'))
    jsonschema.validate(manifest, schema)
    ids = {json.loads(l)['id'] for l in open(os.path.join(ROOT, 'properties.jsonl'))}
    covered = {c['property_id'] for c in checks} | {n['property_id'] for n in manifest['not_applicable']}
    assert ids == covered, ids ^ covered
    print('MANIFEST.json valid: %d checks, %d not_applicable' % (len(checks), len(manifest['not_applicable'])))


if __name__ == '__main__':
    sys.exit(main())
