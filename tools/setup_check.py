#!/venv/bin/python
"""MANIFEST.setup_cmd: nothing to build (pure Python, copulas is an editable install of /repo).
Verifies, offline, that everything the checks import is present and that /verif is writable."""
import os, sys
ROOT = os.path.dirname(os.path.dirname(os.path.abspath(__file__)))
sys.path.insert(0, ROOT)
import numpy, scipy, pandas, plotly, jsonschema  # noqa
import copulas
assert os.path.realpath(copulas.__file__).startswith(os.path.realpath('/repo')), copulas.__file__
for d in ('evidence', 'replays'):
    os.makedirs(os.path.join(ROOT, d), exist_ok=True)
from copsim import core, seams, zoo, runner, findings  # noqa
findings.load()
print('setup ok: numpy %s scipy %s pandas %s copulas %s from %s' % (
    numpy.__version__, scipy.__version__, pandas.__version__, copulas.__version__, copulas.__file__))
