#!/venv/bin/python
"""Soak: run checks over many VERIF_SEED values (and optionally the thorough tier), report only
what is not a clean pass.  Evidence files written by these runs are not to be committed when
started through `vp run` (they land in the snapshot)."""
import argparse, os, subprocess, sys, time
ROOT = os.path.dirname(os.path.dirname(os.path.abspath(__file__)))
ap = argparse.ArgumentParser()
ap.add_argument('--seeds', default='2-11')
ap.add_argument('--tier', default='quick')
ap.add_argument('--props', default='C01,C05,C09,C12,C14,C15,C16,C17,C19,C20')
ap.add_argument('--wall', type=int, default=None)
a = ap.parse_args()
lo, hi = (int(x) for x in a.seeds.split('-'))
bad = 0
t0 = time.time()
for seed in range(lo, hi + 1):
    for prop in a.props.split(','):
        cmd = [sys.executable, os.path.join(ROOT, 'vcheck.py'), prop, '--tier', a.tier, '--seed', str(seed)]
        if a.wall:
            cmd += ['--wall', str(a.wall)]
        p = subprocess.run(cmd, capture_output=True, text=True)
        runs = [l for l in p.stdout.splitlines() if l.startswith('runs=')]
        tag = 'ok' if p.returncode == 0 else 'EXIT %d' % p.returncode
        print('seed=%d %s %s %s' % (seed, prop, tag, runs[0] if runs else ''), flush=True)
        if p.returncode != 0:
            bad += 1
            print(p.stdout[-3000:], flush=True)
print('soak finished: %d non-clean results, %.0f s' % (bad, time.time() - t0))
sys.exit(1 if bad else 0)
