#!/venv/bin/python
"""Evaluate one seeded change (from an independent sub-agent) without touching /repo:
scratch worktree -> demo passes clean -> apply patch -> demo fails -> pinned baseline still
passes -> run the checks with COPULAS_REPO=<worktree> -> write /verif/seeded/<id>/meta.json.

  try_seed.py <src dir with patch.diff demo.py notes.md> <id> <property> [--checks C01,C15]
"""
import argparse, json, os, shutil, subprocess, sys, time
ROOT = os.path.dirname(os.path.dirname(os.path.abspath(__file__)))
PY = '/venv/bin/python'
ALL = 'C01,C05,C09,C12,C14,C15,C16,C17,C19,C20'
ap = argparse.ArgumentParser()
ap.add_argument('src'); ap.add_argument('id'); ap.add_argument('property')
ap.add_argument('--checks', default=ALL)
ap.add_argument('--skip-baseline', action='store_true')
a = ap.parse_args()
wt = '/tmp/tryseed_' + a.id
meta = {'id': a.id, 'property': a.property, 'source': 'independent sub-agent given only the property text and a scratch worktree',
        'base_commit': subprocess.check_output(['git', '-C', '/repo', 'rev-parse', 'HEAD'], text=True).strip()}
subprocess.run(['git', '-C', '/repo', 'worktree', 'remove', '--force', wt], capture_output=True)
subprocess.check_call(['git', '-C', '/repo', 'worktree', 'add', '--detach', '-f', wt, 'HEAD'], stdout=subprocess.DEVNULL, stderr=subprocess.DEVNULL)
try:
    env = dict(os.environ, PYTHONPATH=wt, PYTHONHASHSEED='0')
    demo = os.path.join(a.src, 'demo.py')
    def run_demo():
        p = subprocess.run([PY, demo], env=env, cwd=wt, capture_output=True, text=True, timeout=900)
        return p.returncode, (p.stdout + p.stderr)[-600:]
    rc0, out0 = run_demo()
    ap_ = subprocess.run(['git', '-C', wt, 'apply', os.path.join(os.path.abspath(a.src), 'patch.diff')], capture_output=True, text=True)
    meta['patch_applies'] = ap_.returncode == 0
    if ap_.returncode != 0:
        meta['apply_error'] = ap_.stderr[-400:]
    rc1, out1 = run_demo()
    meta['demo'] = {'clean_exit': rc0, 'patched_exit': rc1, 'patched_output_tail': out1[-400:],
                    'confirmed': rc0 == 0 and rc1 != 0}
    if not a.skip_baseline:
        b = subprocess.run([PY, os.path.join(ROOT, 'tools', 'baseline.py')], env=dict(os.environ, BASELINE_REPO=wt, BASELINE_JOBS='6'),
                           capture_output=True, text=True, timeout=3600)
        meta['baseline'] = {'exit': b.returncode, 'summary': [l for l in b.stdout.splitlines() if l.startswith('passed=') or 'MISSING' in l or 'RETRY' in l][-8:]}
    results = {}
    for prop in a.checks.split(','):
        t0 = time.time()
        p = subprocess.run([PY, os.path.join(ROOT, 'vcheck.py'), prop, '--tier', 'quick'],
                           env=dict(os.environ, COPULAS_REPO=wt, COPSIM_FIRST_ONLY='1', COPSIM_MAX_REPORT='1'),
                           capture_output=True, text=True, timeout=3600)
        classes = [l.strip() for l in p.stdout.splitlines() if ' x oracle=' in l][:8]
        results[prop] = {'exit': p.returncode, 'caught': p.returncode == 1, 'classes': classes,
                         'wall_s': round(time.time() - t0, 1)}
        print('%s %s exit=%d %s' % (a.id, prop, p.returncode, '; '.join(classes)[:300]), flush=True)
    meta['checks_quick'] = results
    meta['caught_by'] = sorted(k for k, v in results.items() if v['caught'])
    meta['ran'] = 'tools/try_seed.py: demo clean/patched, pinned baseline in the patched worktree, every listed check (quick tier, default seed) with COPULAS_REPO=<patched worktree>'
finally:
    subprocess.run(['git', '-C', '/repo', 'worktree', 'remove', '--force', wt], capture_output=True)
    subprocess.run(['git', '-C', '/repo', 'worktree', 'prune'], capture_output=True)
dst = os.path.join(ROOT, 'seeded', a.id)
os.makedirs(dst, exist_ok=True)
for f in ('patch.diff', 'demo.py', 'notes.md'):
    if os.path.exists(os.path.join(a.src, f)):
        if os.path.abspath(a.src) != os.path.abspath(dst):
            shutil.copy(os.path.join(a.src, f), os.path.join(dst, f))
if os.path.exists(os.path.join(dst, 'meta.json')):
    old = json.load(open(os.path.join(dst, 'meta.json')))
    meta.setdefault('history', old.get('history', []))
    if 'baseline' not in meta and old.get('baseline'):
        meta['baseline'] = old['baseline']           # confirmed in an earlier evaluation
    meta['history'].append({k: old.get(k) for k in ('caught_by', 'base_commit')})
json.dump(meta, open(os.path.join(dst, 'meta.json'), 'w'), indent=1, sort_keys=True)
print(json.dumps({k: meta[k] for k in ('id', 'demo', 'caught_by') if k in meta}, indent=1))
print('baseline:', meta.get('baseline'))
