#!/venv/bin/python
"""Single CLI entry of the /verif machinery.

  vcheck.py <Cxx> --tier quick|thorough [--seed N] [--runs N] [--wall S] [--workers N]
  vcheck.py <Cxx> --replay <file>

Exit codes: 0 held (possibly with KNOWN-FINDING lines), 1 at least one VIOLATION line,
2 harness error (never a VIOLATION line, never 0).
"""

import argparse
import os
import sys

ROOT = os.path.dirname(os.path.abspath(__file__))


def _pin_environment():
    """Pin everything the run must not depend on, re-exec once if needed."""
    want = {
        'PYTHONHASHSEED': os.environ.get('COPSIM_HASHSEED', '0'),
        'OPENBLAS_NUM_THREADS': '1',
        'OMP_NUM_THREADS': '1',
        'MKL_NUM_THREADS': '1',
        'PYTHONDONTWRITEBYTECODE': '1',
        'COPULAS_VERIF': '1',
    }
    if any(os.environ.get(k) != v for k, v in want.items()) and not os.environ.get('COPSIM_PINNED'):
        env = dict(os.environ)
        env.update(want)
        env['COPSIM_PINNED'] = '1'
        os.execve(sys.executable, [sys.executable] + sys.argv, env)


def main():
    _pin_environment()
    sys.path.insert(0, ROOT)
    # COPULAS_REPO=<dir> runs the checks against another checkout of sdv-dev/Copulas (a scratch
    # worktree holding a seeded change) instead of /repo; default is /repo's working tree
    alt = os.environ.get('COPULAS_REPO')
    if alt:
        sys.path.insert(0, alt)
        import copulas
        assert os.path.realpath(copulas.__file__).startswith(os.path.realpath(alt)), copulas.__file__
    ap = argparse.ArgumentParser()
    ap.add_argument('property')
    ap.add_argument('--tier', default=os.environ.get('VERIF_TIER', 'quick'),
                    choices=['quick', 'thorough'])
    ap.add_argument('--seed', type=int, default=None)
    ap.add_argument('--runs', type=int, default=None)
    ap.add_argument('--wall', type=int, default=None)
    ap.add_argument('--workers', type=int, default=None)
    ap.add_argument('--replay', default=None)
    args = ap.parse_args()

    from copsim import runner
    from copsim.core import DEFAULT_SEED

    prop = args.property.upper()
    if args.replay:
        code, _ = runner.replay_file(prop, args.replay)
        return code
    seed = args.seed
    if seed is None:
        seed = int(os.environ.get('VERIF_SEED', DEFAULT_SEED))
    try:
        return runner.run_check(prop, args.tier, seed=seed, workers=args.workers,
                                runs=args.runs, wall=args.wall)
    except runner.HarnessError as e:
        print('HARNESS-ERROR: %s' % e)
        return 2


if __name__ == '__main__':
    sys.exit(main())
